package mod

// Replay driver for C13 on mod (injected with go test -overlay): inline data written into a
// descriptor must be the content that descriptor names.

import (
	"context"
	"fmt"
	"path/filepath"
	"testing"

	"github.com/regclient/regclient"
	"github.com/regclient/regclient/internal/copyfs"
	"github.com/regclient/regclient/types/manifest"
	"github.com/regclient/regclient/types/ref"
)

func TestVerifReplayIndexData(t *testing.T) {
	ctx := context.Background()
	tempDir := t.TempDir()
	if err := copyfs.Copy(filepath.Join(tempDir, "testrepo"), "../testdata/testrepo"); err != nil {
		t.Fatalf("copy testrepo: %v", err)
	}
	rc := regclient.New()
	rSrc, err := ref.New("ocidir://" + tempDir + "/testrepo:v1")
	if err != nil {
		t.Fatal(err)
	}
	rTgt, err := ref.New("ocidir://" + tempDir + "/testrepo:v1-data")
	if err != nil {
		t.Fatal(err)
	}
	// embed everything up to 64 KiB as inline data (the child manifests of v1 are a few hundred bytes)
	rOut, err := Apply(ctx, rc, rSrc, WithRefTgt(rTgt), WithData(64*1024))
	if err != nil {
		t.Fatalf("Apply: %v", err)
	}
	m, err := rc.ManifestGet(ctx, rOut)
	if err != nil {
		t.Fatalf("ManifestGet %s: %v", rOut.CommonName(), err)
	}
	mi, ok := m.(manifest.Indexer)
	if !ok {
		t.Skipf("%s is not an index", rOut.CommonName())
	}
	dl, err := mi.GetManifestList()
	if err != nil {
		t.Fatal(err)
	}
	checked := 0
	for _, d := range dl {
		if len(d.Data) == 0 {
			continue
		}
		checked++
		if got := d.Digest.Algorithm().FromBytes(d.Data); got != d.Digest || int64(len(d.Data)) != d.Size {
			t.Errorf("REPRODUCED: index entry %s (size %d) carries %d bytes of inline data that hash to %s", d.Digest, d.Size, len(d.Data), got)
		}
	}
	fmt.Println("replay finished: entries with data:", checked, "of", len(dl))
}
