package main

// Replay driver for C18 on cmd/regsync (injected with go test -overlay): where a backup name is
// configured, the image the target tag pointed to must be available under that name before the
// tag is overwritten.

import (
	"context"
	"fmt"
	"log/slog"
	"os"
	"testing"

	"github.com/regclient/regclient"
	"github.com/regclient/regclient/internal/copyfs"
	"github.com/regclient/regclient/types/ref"
)

func TestVerifReplayBackupBeforeOverwrite(t *testing.T) {
	ctx := context.Background()
	tempDir := t.TempDir()
	if err := copyfs.Copy(tempDir+"/testrepo", "../../testdata/testrepo"); err != nil {
		t.Fatalf("copy testrepo: %v", err)
	}
	rc := regclient.New()
	cs := ConfigSync{
		Source: "ocidir://" + tempDir + "/testrepo",
		Target: "ocidir://" + tempDir + "/testdest",
		Type:   "repository",
	}
	syncSetDefaults(&cs, ConfigDefaults{})
	opts := rootOpts{rc: rc, conf: &Config{Sync: []ConfigSync{cs}},
		log: slog.New(slog.NewTextHandler(os.Stderr, &slog.HandlerOptions{Level: slog.LevelError}))}
	src, _ := ref.New(cs.Source)
	tgt, _ := ref.New(cs.Target)
	tgt = tgt.SetTag("stable")
	// first run: stable := v1 (no target yet, so no backup)
	if err := opts.processRef(ctx, cs, src.SetTag("v1"), tgt, actionCopy); err != nil {
		t.Fatalf("initial sync: %v", err)
	}
	mOld, err := rc.ManifestHead(ctx, tgt)
	if err != nil {
		t.Fatalf("target after first run: %v", err)
	}
	// second run: the source moved to v2, a backup name is configured, but the backup copy cannot
	// succeed (the backup location is a layout under a path that cannot be created)
	cs.Backup = "ocidir:///proc/verif-no-such-dir/backup:{{.Ref.Tag}}"
	err = opts.processRef(ctx, cs, src.SetTag("v2"), tgt, actionCopy)
	mNew, errHead := rc.ManifestHead(ctx, tgt)
	if errHead != nil {
		t.Fatalf("target after second run: %v", errHead)
	}
	bRef, _ := ref.New("ocidir:///proc/verif-no-such-dir/backup:stable")
	_, errBackup := rc.ManifestHead(ctx, bRef)
	overwritten := mNew.GetDescriptor().Digest != mOld.GetDescriptor().Digest
	if overwritten && errBackup != nil {
		t.Errorf("REPRODUCED: processRef returned %v and overwrote the target tag (%s -> %s) although the previous image is not available under the configured backup name (%v)",
			err, mOld.GetDescriptor().Digest, mNew.GetDescriptor().Digest, errBackup)
	}
	fmt.Println("replay finished: overwritten =", overwritten, "backup error =", errBackup)
}

// anchored-as-a-group: an allow or deny expression must match the WHOLE tag. With an alternation
// the pattern "^" + f + "$" anchors only its first and last branch.
func TestVerifReplayFilterAnchoring(t *testing.T) {
	in := []string{"v1", "v2", "v1-rc1", "nightly-v2", "latest"}
	out, err := filterList(AllowDeny{Allow: []string{"v1|v2"}}, append([]string{}, in...))
	if err != nil {
		t.Fatal(err)
	}
	for _, tag := range out {
		if tag != "v1" && tag != "v2" {
			t.Errorf("REPRODUCED: allow [\"v1|v2\"] selected tag %q, which the expression does not match as a whole (selected: %v)", tag, out)
			break
		}
	}
	out2, err := filterList(AllowDeny{Deny: []string{"latest|nightly"}}, []string{"v1", "latest", "latest-alpine", "old-nightly"})
	if err != nil {
		t.Fatal(err)
	}
	if len(out2) != 3 {
		t.Errorf("REPRODUCED: deny [\"latest|nightly\"] also excluded tags it does not match as a whole: kept only %v of [v1 latest latest-alpine old-nightly]", out2)
	}
	fmt.Println("replay finished:", out, out2)
}
