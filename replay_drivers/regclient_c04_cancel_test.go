package regclient

// Reproduction of a suspected defect in (*RegClient).imageCopyOpt (image.go):
// while draining the unbuffered waitCh, an error that wraps context.Canceled is
// OVERWRITTEN by the next value received ("try to find a better error message
// than context canceled"). If the last child to report returns nil, the copy
// "succeeds": the manifest is pushed although a child was cancelled and its blob
// is missing. With an ocidir target ManifestPut never looks at the context, so a
// copy whose parent context was cancelled returns nil and moves the tag onto an
// incomplete image.
//
// Two scenarios are exercised, both against the unmodified code:
//
//   - race: only the source registry is paced (an http.Handler wrapped around
//     olareg). One layer ("victim") is blocked in the registry, another blob
//     ("late") is served and flushed, then the parent context is cancelled a
//     few microseconds later. The late child already has its (tiny) body and
//     finishes writing to the layout AFTER the victim child reported
//     context.Canceled. Scheduler dependent, retried with a swept delay.
//
//   - callback: deterministic. One layer already exists in the target layout,
//     so its child only does a local BlobHead (no context sensitive work). A
//     user supplied ImageWithCallback progress callback is slow for that blob:
//     it returns only after the parent context was cancelled and the victim
//     request was torn down. The child then reports nil after the victim
//     reported context.Canceled.

import (
	"context"
	"errors"
	"fmt"
	"log/slog"
	"net/http"
	"net/http/httptest"
	"net/url"
	"os"
	"path/filepath"
	"runtime"
	"strings"
	"sync"
	"sync/atomic"
	"testing"
	"time"

	"github.com/olareg/olareg"
	oConfig "github.com/olareg/olareg/config"

	"github.com/regclient/regclient/config"
	"github.com/regclient/regclient/scheme/reg"
	"github.com/regclient/regclient/types"
	"github.com/regclient/regclient/types/descriptor"
	"github.com/regclient/regclient/types/manifest"
	"github.com/regclient/regclient/types/platform"
	"github.com/regclient/regclient/types/ref"
)

// reproIter is the pacing state of one copy attempt.
type reproIter struct {
	victim string // digest of the layer whose GET is blocked until the context is cancelled
	late   string // digest of the blob served last, just before the cancel (race mode only)
	// handlerCancels: the victim handler itself cancels the parent context (race mode)
	handlerCancels bool
	delta          time.Duration
	cancel         context.CancelFunc

	// needOthers: number of blobs other than victim and late that are served before late
	needOthers int32
	served     atomic.Int32

	victimArrived  chan struct{} // victim GET reached the registry
	othersServed   chan struct{} // all blobs other than victim and late were served
	lateServed     chan struct{} // late blob response was written and flushed
	victimReleased chan struct{} // registry saw the victim request being torn down
	onceA, onceS   sync.Once
	onceR, onceO   sync.Once
}

func newReproIter(needOthers int) *reproIter {
	st := &reproIter{
		needOthers:     int32(needOthers),
		victimArrived:  make(chan struct{}),
		othersServed:   make(chan struct{}),
		lateServed:     make(chan struct{}),
		victimReleased: make(chan struct{}),
	}
	if needOthers <= 0 {
		close(st.othersServed)
	}
	return st
}

func reproWait(ch <-chan struct{}, d time.Duration) bool {
	select {
	case <-ch:
		return true
	case <-time.After(d):
		return false
	}
}

// reproGate wraps the registry handler and paces blob GETs.
type reproGate struct {
	inner http.Handler
	cur   atomic.Pointer[reproIter]
}

func (g *reproGate) ServeHTTP(w http.ResponseWriter, r *http.Request) {
	st := g.cur.Load()
	if st == nil || r.Method != http.MethodGet || !strings.Contains(r.URL.Path, "/blobs/") {
		g.inner.ServeHTTP(w, r)
		return
	}
	dig := r.URL.Path[strings.LastIndex(r.URL.Path, "/")+1:]
	switch dig {
	case st.victim:
		st.onceA.Do(func() { close(st.victimArrived) })
		if st.handlerCancels {
			// wait for the other blob to be fully served, then cancel the PARENT context
			reproWait(st.lateServed, 2*time.Second)
			for end := time.Now().Add(st.delta); time.Now().Before(end); {
			}
			st.cancel()
		}
		// keep blocking until the client gives up on this request
		reproWait(r.Context().Done(), 5*time.Second)
		st.onceR.Do(func() { close(st.victimReleased) })
		return
	case st.late:
		// serve this blob last: the victim request is in flight and all other blobs were served
		reproWait(st.victimArrived, 2*time.Second)
		reproWait(st.othersServed, 2*time.Second)
		g.inner.ServeHTTP(w, r)
		if f, ok := w.(http.Flusher); ok {
			f.Flush()
		}
		st.onceS.Do(func() { close(st.lateServed) })
		return
	}
	g.inner.ServeHTTP(w, r)
	if f, ok := w.(http.Flusher); ok {
		f.Flush()
	}
	if st.served.Add(1) >= st.needOthers {
		st.onceO.Do(func() { close(st.othersServed) })
	}
}

type reproOutcome struct {
	copyErr      error
	tagResolves  bool
	tagDigest    string
	missing      []string // blobs referenced by the copied manifest that are absent at the target
	victimAbsent bool     // blob file of the victim layer is absent on disk
}

func (o reproOutcome) defect() bool {
	return len(o.missing) > 0 && (o.copyErr == nil || o.tagResolves)
}

func TestReproCopyCancelOverwrittenError(t *testing.T) {
	bg := context.Background()
	regHandler := olareg.New(oConfig.Config{
		Storage: oConfig.ConfigStorage{
			StoreType: oConfig.StoreMem,
			RootDir:   "./testdata",
			ReadOnly:  boolPtr(true),
		},
	})
	gate := &reproGate{inner: regHandler}
	ts := httptest.NewServer(gate)
	tsURL, _ := url.Parse(ts.URL)
	tsHost := tsURL.Host
	t.Cleanup(func() {
		ts.Close()
		_ = regHandler.Close()
	})
	newRC := func(opts ...Opt) *RegClient {
		opts = append([]Opt{
			WithConfigHost(config.Host{Name: tsHost, Hostname: tsHost, TLS: config.TLSDisabled}),
			WithRegOpts(reg.WithDelay(10*time.Millisecond, 20*time.Millisecond)),
		}, opts...)
		return New(opts...)
	}

	// pick the linux/amd64 image of testrepo:v1: one config blob and two layers (three children)
	rcSetup := newRC()
	rIndex, err := ref.New(tsHost + "/testrepo:v1")
	if err != nil {
		t.Fatalf("ref: %v", err)
	}
	mIndex, err := rcSetup.ManifestGet(bg, rIndex)
	if err != nil {
		t.Fatalf("get index: %v", err)
	}
	plat, _ := platform.Parse("linux/amd64")
	dImg, err := manifest.GetPlatformDesc(mIndex, &plat)
	if err != nil {
		t.Fatalf("platform desc: %v", err)
	}
	rSrc := rIndex.SetDigest(dImg.Digest.String())
	mImg, err := rcSetup.ManifestGet(bg, rSrc)
	if err != nil {
		t.Fatalf("get image: %v", err)
	}
	mi, ok := mImg.(manifest.Imager)
	if !ok {
		t.Fatalf("not an image manifest")
	}
	cd, err := mi.GetConfig()
	if err != nil {
		t.Fatalf("config: %v", err)
	}
	layers, err := mi.GetLayers()
	if err != nil || len(layers) < 2 {
		t.Fatalf("layers: %v (%d)", err, len(layers))
	}
	blobs := append([]descriptor.Descriptor{cd}, layers...)
	victim := layers[len(layers)-1]
	t.Logf("image %s: config %s, layers %d, victim layer %s", dImg.Digest, cd.Digest, len(layers), victim.Digest)

	// inspect the target layout with a fresh client and a fresh context
	inspect := func(dir string, rTgt ref.Ref, copyErr error) reproOutcome {
		out := reproOutcome{copyErr: copyErr}
		rcChk := New()
		ctxChk, cancelChk := context.WithTimeout(context.Background(), 10*time.Second)
		defer cancelChk()
		if mh, err := rcChk.ManifestGet(ctxChk, rTgt); err == nil {
			out.tagResolves = true
			out.tagDigest = mh.GetDescriptor().Digest.String()
		}
		for _, d := range blobs {
			if _, err := rcChk.BlobHead(ctxChk, rTgt, d); err != nil {
				out.missing = append(out.missing, d.Digest.String())
			}
		}
		_, statErr := os.Stat(filepath.Join(dir, "blobs", victim.Digest.Algorithm().String(), victim.Digest.Encoded()))
		out.victimAbsent = errors.Is(statErr, os.ErrNotExist)
		return out
	}
	report := func(t *testing.T, mode string, iter int, extra string, out reproOutcome) {
		t.Helper()
		t.Errorf("REPRODUCED [%s, attempt %d%s]: ImageCopy with a context cancelled during the copy returned err=%v; "+
			"target tag resolves=%v (digest %s, source image %s); blobs referenced by that manifest but MISSING in the target layout: %v "+
			"(victim layer file absent on disk: %v)",
			mode, iter, extra, out.copyErr, out.tagResolves, out.tagDigest, dImg.Digest, out.missing, out.victimAbsent)
	}

	// Scenario 1: deterministic, a layer already exists at the target and the user callback is slow.
	t.Run("callback", func(t *testing.T) {
		existing := layers[0]
		dir := t.TempDir()
		rTgt, err := ref.New("ocidir://" + dir + ":v1")
		if err != nil {
			t.Fatalf("ref: %v", err)
		}
		logBuf := &reproLogBuf{}
		rc := newRC(WithSlog(slog.New(slog.NewTextHandler(logBuf, &slog.HandlerOptions{Level: slog.LevelDebug}))))
		// pre-populate the layout with one layer (gate is inactive here)
		if err := rc.BlobCopy(bg, rSrc, rTgt, existing); err != nil {
			t.Fatalf("pre-populating layer: %v", err)
		}
		st := newReproIter(0)
		st.victim = victim.Digest.String()
		st.late = cd.Digest.String() // the only other blob that is fetched: the config
		ctx, cancel := context.WithCancel(bg)
		defer cancel()
		st.cancel = cancel
		gate.cur.Store(st)
		defer gate.cur.Store(nil)
		var once sync.Once
		cb := func(kind types.CallbackKind, instance string, state types.CallbackState, cur, total int64) {
			if kind != types.CallbackBlob || instance != existing.Digest.String() || state != types.CallbackStarted {
				return
			}
			once.Do(func() {
				// a slow progress callback: meanwhile the caller cancels the copy
				if !reproWait(st.victimArrived, 5*time.Second) {
					t.Logf("victim request never arrived")
				}
				if !reproWait(st.lateServed, 5*time.Second) {
					t.Logf("config blob was never served")
				}
				time.Sleep(50 * time.Millisecond) // let the config child finish writing
				cancel()
				reproWait(st.victimReleased, 5*time.Second)
				time.Sleep(100 * time.Millisecond) // let the cancelled child report first
			})
		}
		copyErr := rc.ImageCopy(ctx, rSrc, rTgt, ImageWithCallback(cb))
		t.Logf("ctx.Err()=%v, ImageCopy err=%v", ctx.Err(), copyErr)
		for _, line := range logBuf.lines() {
			for _, kw := range []string{"Request failed", "Blob copy skipped", "pushed manifest", "child manifest copy failed", "Failed to"} {
				if strings.Contains(line, kw) {
					t.Logf("client log: %s", line)
					break
				}
			}
		}
		out := inspect(dir, rTgt, copyErr)
		if out.defect() {
			report(t, "callback", 1, "", out)
		} else {
			t.Logf("not reproduced: %+v", out)
		}
	})

	// Scenario 2: only the registry is paced, scheduler dependent, retried.
	t.Run("race", func(t *testing.T) {
		const maxIter = 400
		// the interleaving needs real parallelism between the registry handler and the copy goroutines
		if prev := runtime.GOMAXPROCS(0); prev < 4 {
			runtime.GOMAXPROCS(4)
			defer runtime.GOMAXPROCS(prev)
		}
		deadline := time.Now().Add(30 * time.Second)
		stats := map[string]int{}
		for i := 1; i <= maxIter && time.Now().Before(deadline); i++ {
			late := blobs[i%(len(blobs)-1)] // config or one of the non-victim layers
			delta := time.Duration(i%50) * 10 * time.Microsecond
			dir, err := os.MkdirTemp(t.TempDir(), "layout")
			if err != nil {
				t.Fatalf("tempdir: %v", err)
			}
			rTgt, err := ref.New("ocidir://" + dir + ":v1")
			if err != nil {
				t.Fatalf("ref: %v", err)
			}
			rc := newRC()
			st := newReproIter(len(blobs) - 2)
			st.victim = victim.Digest.String()
			st.late = late.Digest.String()
			st.handlerCancels = true
			st.delta = delta
			ctx, cancel := context.WithCancel(bg)
			st.cancel = cancel
			gate.cur.Store(st)
			copyErr := rc.ImageCopy(ctx, rSrc, rTgt)
			ctxErr := ctx.Err()
			cancel()
			reproWait(st.victimReleased, 5*time.Second)
			gate.cur.Store(nil)
			if ctxErr == nil {
				t.Fatalf("attempt %d: context was not cancelled during the copy (err=%v)", i, copyErr)
			}
			out := inspect(dir, rTgt, copyErr)
			key := fmt.Sprintf("err=%v missing=%d tag=%v", copyErr, len(out.missing), out.tagResolves)
			stats[key]++
			if out.defect() {
				report(t, "race", i, fmt.Sprintf(", late blob %s, cancel %s after it was flushed", late.Digest, delta), out)
				break
			}
		}
		for k, v := range stats {
			t.Logf("outcome %q: %d", k, v)
		}
	})
}

func boolPtr(b bool) *bool { return &b }

// reproLogBuf collects slog output of the client.
type reproLogBuf struct {
	mu  sync.Mutex
	buf []byte
}

func (b *reproLogBuf) Write(p []byte) (int, error) {
	b.mu.Lock()
	defer b.mu.Unlock()
	b.buf = append(b.buf, p...)
	return len(p), nil
}

func (b *reproLogBuf) lines() []string {
	b.mu.Lock()
	defer b.mu.Unlock()
	return strings.Split(strings.TrimSpace(string(b.buf)), "\n")
}
