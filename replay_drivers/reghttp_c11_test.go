package reghttp

// Replay drivers for C11 obligations on internal/reghttp (injected with go test -overlay):
// where does a registry's secret travel? Every host is a real HTTP server, the client is the real
// reghttp client.

import (
	"bufio"
	"context"
	"encoding/base64"
	"encoding/pem"
	"fmt"
	"net"
	"net/http"
	"net/http/httptest"
	"net/url"
	"strings"
	"sync"
	"testing"
	"time"

	"github.com/regclient/regclient/config"
)

const (
	verifC11User = "reg-user"
	verifC11Pass = "reg-secret-PASS"
)

func verifC11Leaked(hdr string) bool {
	if hdr == "" {
		return false
	}
	b64 := base64.StdEncoding.EncodeToString([]byte(verifC11User + ":" + verifC11Pass))
	return strings.Contains(hdr, b64) || strings.Contains(hdr, verifC11Pass)
}

// own-host-only: a redirect target (third host) that itself answers 401 Basic must not receive
// the origin registry's user name and password.
func TestVerifReplayCredsOwnHost(t *testing.T) {
	var mu sync.Mutex
	var thirdAuth []string
	third := httptest.NewServer(http.HandlerFunc(func(w http.ResponseWriter, r *http.Request) {
		mu.Lock()
		thirdAuth = append(thirdAuth, r.Header.Get("Authorization"))
		mu.Unlock()
		if r.Header.Get("Authorization") == "" {
			w.Header().Set("WWW-Authenticate", `Basic realm="third party storage"`)
			w.WriteHeader(http.StatusUnauthorized)
			return
		}
		_, _ = w.Write([]byte("blob"))
	}))
	defer third.Close()
	reg := httptest.NewServer(http.HandlerFunc(func(w http.ResponseWriter, r *http.Request) {
		if r.Header.Get("Authorization") == "" {
			w.Header().Set("WWW-Authenticate", `Basic realm="registry"`)
			w.WriteHeader(http.StatusUnauthorized)
			return
		}
		if strings.Contains(r.URL.Path, "/blobs/") {
			// a different host NAME (net/http itself forwards Authorization when only the port differs)
			http.Redirect(w, r, strings.Replace(third.URL, "127.0.0.1", "localhost", 1)+"/storage/blob", http.StatusTemporaryRedirect)
			return
		}
		w.WriteHeader(http.StatusOK)
	}))
	defer reg.Close()
	regU, _ := url.Parse(reg.URL)
	hosts := map[string]*config.Host{
		regU.Host: {Name: regU.Host, Hostname: regU.Host, TLS: config.TLSDisabled, User: verifC11User, Pass: verifC11Pass},
	}
	c := NewClient(WithConfigHostFn(func(name string) *config.Host {
		if h, ok := hosts[name]; ok {
			return h
		}
		return config.HostNewName(name)
	}), WithDelay(time.Millisecond, 10*time.Millisecond), WithRetryLimit(3))
	ctx, cancel := context.WithTimeout(context.Background(), 20*time.Second)
	defer cancel()
	resp, err := c.Do(ctx, &Req{Host: regU.Host, Method: "GET", Repository: "proj", Path: "blobs/sha256:e3b0c44298fc1c149afbf4c8996fb92427ae41e4649b934ca495991b7852b855"})
	if err == nil {
		_ = resp.Close()
	}
	mu.Lock()
	defer mu.Unlock()
	for _, a := range thirdAuth {
		if verifC11Leaked(a) {
			t.Errorf("REPRODUCED: the redirect target %s received the registry's credentials: Authorization: %s", third.URL, a)
			break
		}
	}
	fmt.Printf("replay finished: err=%v, third host saw Authorization headers %q\n", err, thirdAuth)
}

// not-in-clear-text-to-a-tls-host: once a host configured for TLS has challenged (over TLS), a
// request to the same host with an http:// URL (an upload Location or redirect the server names)
// must not carry the Authorization header in clear text.
func TestVerifReplayCredsClearText(t *testing.T) {
	tlsSrv := httptest.NewTLSServer(http.HandlerFunc(func(w http.ResponseWriter, r *http.Request) {
		if r.Header.Get("Authorization") == "" {
			w.Header().Set("WWW-Authenticate", `Basic realm="registry"`)
			w.WriteHeader(http.StatusUnauthorized)
			return
		}
		w.WriteHeader(http.StatusOK)
	}))
	u, _ := url.Parse(tlsSrv.URL)
	certPEM := string(pem.EncodeToMemory(&pem.Block{Type: "CERTIFICATE", Bytes: tlsSrv.Certificate().Raw}))
	hosts := map[string]*config.Host{
		u.Host: {Name: u.Host, Hostname: u.Host, TLS: config.TLSEnabled, RegCert: certPEM, User: verifC11User, Pass: verifC11Pass},
	}
	c := NewClient(WithConfigHostFn(func(name string) *config.Host {
		if h, ok := hosts[name]; ok {
			return h
		}
		return config.HostNewName(name)
	}), WithDelay(time.Millisecond, 10*time.Millisecond), WithRetryLimit(2))
	ctx, cancel := context.WithTimeout(context.Background(), 20*time.Second)
	defer cancel()
	// step 1: authenticated request over TLS, the host's auth handler now exists
	resp, err := c.Do(ctx, &Req{Host: u.Host, Method: "GET", Repository: "proj", Path: "tags/list"})
	if err != nil {
		t.Fatalf("request over TLS failed: %v", err)
	}
	_ = resp.Close()
	tlsSrv.Close()
	// step 2: the same host:port now only records what arrives in clear text
	ln, err := net.Listen("tcp", u.Host)
	if err != nil {
		t.Skipf("cannot re-listen on %s: %v", u.Host, err)
	}
	defer ln.Close()
	got := make(chan string, 4)
	go func() {
		for {
			conn, err := ln.Accept()
			if err != nil {
				return
			}
			go func() {
				defer conn.Close()
				_ = conn.SetDeadline(time.Now().Add(3 * time.Second))
				rd := bufio.NewReader(conn)
				var lines []string
				for {
					l, err := rd.ReadString('\n')
					if err != nil || strings.TrimSpace(l) == "" {
						break
					}
					lines = append(lines, strings.TrimSpace(l))
				}
				got <- strings.Join(lines, " | ")
				_, _ = conn.Write([]byte("HTTP/1.1 200 OK\r\nContent-Length: 0\r\nConnection: close\r\n\r\n"))
			}()
		}
	}()
	direct, _ := url.Parse("http://" + u.Host + "/v2/proj/blobs/uploads/session-1")
	resp, err = c.Do(ctx, &Req{Host: u.Host, Method: "GET", Repository: "proj", DirectURL: direct})
	if err == nil {
		_ = resp.Close()
	}
	select {
	case seen := <-got:
		if verifC11Leaked(seen) {
			t.Errorf("REPRODUCED: Authorization for a TLS-configured host was sent in clear text over http://%s : %s", u.Host, seen)
		}
		fmt.Printf("replay finished: err=%v, clear-text request was %q\n", err, seen)
	case <-time.After(5 * time.Second):
		fmt.Printf("replay finished: err=%v, nothing arrived in clear text\n", err)
	}
}
