package regclient

// Replay driver for C10 (injected with go test -overlay): two referrer updates for ONE subject
// issued concurrently through ONE client against a registry without the referrers API (the client
// maintains the fallback tag). The interleaving is forced by a handler that holds back the write
// of the deleting update until the pushing update has finished:
//   delete(B): reads fallback index [B] ........................ writes (deletes the tag)
//   put(A):                               reads [B], writes [A,B]
// Afterwards A is a live manifest naming the subject and must be listed.

import (
	"context"
	"fmt"
	"net/http"
	"net/http/httptest"
	"net/url"
	"strings"
	"sync"
	"testing"
	"time"

	"github.com/olareg/olareg"
	oConfig "github.com/olareg/olareg/config"

	"github.com/regclient/regclient/config"
	"github.com/regclient/regclient/types/descriptor"
	"github.com/regclient/regclient/types/manifest"
	"github.com/regclient/regclient/types/mediatype"
	v1 "github.com/regclient/regclient/types/oci/v1"
	"github.com/regclient/regclient/types/ref"
)

func TestVerifReplayReferrerRace(t *testing.T) {
	ctx, cancel := context.WithTimeout(context.Background(), 60*time.Second)
	defer cancel()
	boolT, boolF := true, false
	regHandler := olareg.New(oConfig.Config{
		Storage: oConfig.ConfigStorage{StoreType: oConfig.StoreMem, RootDir: "./testdata"},
		API:     oConfig.ConfigAPI{DeleteEnabled: &boolT, Referrer: oConfig.ConfigAPIReferrer{Enabled: &boolF}},
	})
	defer regHandler.Close()
	var mu sync.Mutex
	holdWrites := false
	fallbackReads := 0
	readSeen := make(chan struct{}, 16)
	release := make(chan struct{})
	ts := httptest.NewServer(http.HandlerFunc(func(w http.ResponseWriter, r *http.Request) {
		isFallback := strings.Contains(r.URL.Path, "/manifests/sha256-")
		mu.Lock()
		hold := holdWrites && isFallback && r.Method != http.MethodGet && r.Method != http.MethodHead && r.Header.Get("X-Verif-Held") == ""
		if hold {
			holdWrites = false // only the first write of the deleting update is held
		}
		mu.Unlock()
		if hold {
			<-release
		}
		regHandler.ServeHTTP(w, r)
		if isFallback && r.Method == http.MethodGet {
			mu.Lock()
			fallbackReads++
			mu.Unlock()
			readSeen <- struct{}{}
		}
	}))
	defer ts.Close()
	tsURL, _ := url.Parse(ts.URL)
	rc := New(WithConfigHost(config.Host{Name: tsURL.Host, Hostname: tsURL.Host, TLS: config.TLSDisabled}))
	rSubject, err := ref.New(tsURL.Host + "/testrepo:v1")
	if err != nil {
		t.Fatal(err)
	}
	mSubject, err := rc.ManifestHead(ctx, rSubject, WithManifestRequireDigest())
	if err != nil {
		t.Fatalf("subject: %v", err)
	}
	dSubject := mSubject.GetDescriptor()
	emptyCfg := descriptor.Descriptor{MediaType: mediatype.OCI1Empty, Digest: descriptor.EmptyDigest, Size: int64(len(descriptor.EmptyData))}
	if _, err := rc.BlobPut(ctx, rSubject, emptyCfg, strings.NewReader(string(descriptor.EmptyData))); err != nil {
		t.Fatalf("push empty blob: %v", err)
	}
	mkArtifact := func(name string) manifest.Manifest {
		m, err := manifest.New(manifest.WithOrig(v1.Manifest{
			Versioned:    v1.ManifestSchemaVersion,
			MediaType:    mediatype.OCI1Manifest,
			ArtifactType: "application/example." + name,
			Config:       emptyCfg,
			Layers:       []descriptor.Descriptor{emptyCfg},
			Annotations:  map[string]string{"name": name},
			Subject:      &descriptor.Descriptor{MediaType: dSubject.MediaType, Digest: dSubject.Digest, Size: dSubject.Size},
		}))
		if err != nil {
			t.Fatal(err)
		}
		return m
	}
	mA, mB := mkArtifact("a"), mkArtifact("b")
	rA := rSubject.SetDigest(mA.GetDescriptor().Digest.String())
	rB := rSubject.SetDigest(mB.GetDescriptor().Digest.String())
	// B is attached first
	if err := rc.ManifestPut(ctx, rB, mB); err != nil {
		t.Fatalf("put B: %v", err)
	}
	for len(readSeen) > 0 {
		<-readSeen
	}
	// the deleting update starts; its write to the fallback tag is held back
	mu.Lock()
	holdWrites = true
	mu.Unlock()
	delDone := make(chan error, 1)
	go func() {
		delDone <- rc.ManifestDelete(ctx, rB, WithManifestCheckReferrers(), WithManifest(mB))
	}()
	select { // wait until the delete has READ the fallback index
	case <-readSeen:
	case <-time.After(10 * time.Second):
		t.Fatal("delete never read the fallback tag")
	}
	time.Sleep(100 * time.Millisecond)
	// the pushing update runs to completion in between
	putErr := make(chan error, 1)
	go func() { putErr <- rc.ManifestPut(ctx, rA, mA) }()
	var errPut error
	select {
	case errPut = <-putErr:
	case <-time.After(5 * time.Second):
		// the push waits for the delete (the updates are serialised): let the delete go on
	}
	close(release)
	if errPut == nil {
		select {
		case errPut = <-putErr:
		default:
		}
	}
	errDel := <-delDone
	if errPut == nil {
		select {
		case errPut = <-putErr:
		case <-time.After(10 * time.Second):
		}
	}
	rl, err := rc.ReferrerList(ctx, rSubject)
	if err != nil {
		t.Fatalf("ReferrerList: %v", err)
	}
	var listed []string
	foundA := false
	for _, d := range rl.Descriptors {
		listed = append(listed, d.Annotations["name"]+"@"+d.Digest.String()[:19])
		if d.Digest == mA.GetDescriptor().Digest {
			foundA = true
		}
	}
	if _, err := rc.ManifestHead(ctx, rA); err == nil && !foundA {
		t.Errorf("REPRODUCED: artifact A (%s) is stored and names the subject, but after a concurrent delete of B it is not among the referrers %v (put err=%v, delete err=%v)",
			mA.GetDescriptor().Digest, listed, errPut, errDel)
	}
	fmt.Printf("replay finished: put=%v delete=%v listed=%v\n", errPut, errDel, listed)
}
