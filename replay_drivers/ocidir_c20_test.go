package ocidir

// Replay driver for C20 on scheme/ocidir (injected with go test -overlay): a digest that was not
// validated must not be turned into a path outside the layout directory.

import (
	"context"
	"fmt"
	"os"
	"path/filepath"
	"testing"

	"github.com/regclient/regclient/scheme"
	"github.com/regclient/regclient/types/descriptor"
	"github.com/regclient/regclient/types/manifest"
	"github.com/regclient/regclient/types/ref"
)

func TestVerifReplayDigestPath(t *testing.T) {
	ctx := context.Background()
	root := t.TempDir()
	layout := filepath.Join(root, "layout")
	if err := os.MkdirAll(filepath.Join(layout, "blobs", "sha256"), 0o777); err != nil {
		t.Fatal(err)
	}
	os.WriteFile(filepath.Join(layout, "oci-layout"), []byte(`{"imageLayoutVersion":"1.0.0"}`), 0o666)
	os.WriteFile(filepath.Join(layout, "index.json"), []byte(`{"schemaVersion":2,"mediaType":"application/vnd.oci.image.index.v1+json","manifests":[]}`), 0o666)
	victim := filepath.Join(root, "victim.txt")
	if err := os.WriteFile(victim, []byte("precious"), 0o666); err != nil {
		t.Fatal(err)
	}
	o := New()
	// a hostile digest: algorithm "sha256", "encoded" part climbs out of blobs/sha256/
	hostile := "sha256:../../../victim.txt"
	r := ref.Ref{Scheme: "ocidir", Path: layout, Digest: hostile}
	m, err := manifest.New(manifest.WithRaw([]byte(`{"schemaVersion":2,"mediaType":"application/vnd.oci.image.manifest.v1+json","config":{"mediaType":"application/vnd.oci.empty.v1+json","digest":"sha256:44136fa355b3678a1146ad16f7e8649e94fb4fc21fe77e8310c060f61caaff8a","size":2},"layers":[]}`)))
	if err != nil {
		t.Fatal(err)
	}
	op := os.Getenv("VERIF_REPLAY_OP")
	if op == "" || op == "ManifestDelete" {
		_ = o.ManifestDelete(ctx, r, scheme.WithManifest(m))
	}
	if op == "" || op == "BlobDelete" {
		_ = o.BlobDelete(ctx, r, descriptor.Descriptor{Digest: "sha256:../../../victim.txt"})
	}
	if _, err := os.Stat(victim); err != nil {
		t.Errorf("REPRODUCED: a file OUTSIDE the layout directory was removed through digest %q: %v", hostile, err)
	}
	fmt.Println("replay finished")
}
