package sandbox

// Replay driver for C19 (dry run changes nothing); injected with go test -overlay.
// An in-memory registry sits behind a recording proxy. Scripts that call the state-changing Lua
// bindings are run with WithDryRun(); the driver fails if any request other than GET/HEAD
// reaches the registry. VERIF_REPLAY_OP selects the sandbox function (blobPut, manifestPut,
// imageImportTar, imageCopy, manifestDelete, tagDelete); "" = all.

import (
	"context"
	"fmt"
	"net/http"
	"net/http/httptest"
	"net/url"
	"os"
	"path/filepath"
	"strings"
	"sync"
	"testing"

	"github.com/olareg/olareg"
	oConfig "github.com/olareg/olareg/config"

	"github.com/regclient/regclient"
	rcConfig "github.com/regclient/regclient/config"
)

func TestVerifReplayDryRun(t *testing.T) {
	boolT := true
	regHandler := olareg.New(oConfig.Config{
		Storage: oConfig.ConfigStorage{StoreType: oConfig.StoreMem, RootDir: "../../../testdata"},
		API:     oConfig.ConfigAPI{DeleteEnabled: &boolT},
	})
	var mu sync.Mutex
	var writes []string
	ts := httptest.NewServer(http.HandlerFunc(func(w http.ResponseWriter, r *http.Request) {
		if r.Method != "GET" && r.Method != "HEAD" {
			mu.Lock()
			writes = append(writes, r.Method+" "+r.URL.Path)
			mu.Unlock()
		}
		regHandler.ServeHTTP(w, r)
	}))
	defer ts.Close()
	defer regHandler.Close()
	tsURL, _ := url.Parse(ts.URL)
	host := tsURL.Host
	rc := regclient.New(regclient.WithConfigHost(rcConfig.Host{Name: host, Hostname: host, TLS: rcConfig.TLSDisabled}))
	tmp := t.TempDir()
	tarFile := filepath.Join(tmp, "img.tar")
	// prepare an archive with a normal (non dry-run) sandbox: local file only
	prep := New("prep", WithContext(context.Background()), WithRegClient(rc))
	if err := prep.RunScript(fmt.Sprintf(`image.exportTar("%s/testrepo:v1", "%s")`, host, tarFile)); err != nil {
		t.Fatalf("prepare export: %v", err)
	}
	prep.Close()
	mu.Lock()
	writes = nil
	mu.Unlock()
	scripts := map[string]string{
		"blobPut":        fmt.Sprintf(`c = image.config("%s/testrepo:v1"); r = reference.new("%s/verifdry:latest"); blob.put(r, c)`, host, host),
		"manifestPut":    fmt.Sprintf(`m = manifest.get("%s/testrepo:v1"); r = reference.new("%s/verifdry:put"); manifest.put(m, r)`, host, host),
		"imageImportTar": fmt.Sprintf(`image.importTar("%s/verifdry:imported", "%s")`, host, tarFile),
		"imageCopy":      fmt.Sprintf(`image.copy("%s/testrepo:v1", "%s/verifdry:copied")`, host, host),
		"manifestDelete": fmt.Sprintf(`m = manifest.get("%s/testrepo:v2"); m:delete()`, host),
		"tagDelete":      fmt.Sprintf(`tag.delete("%s/testrepo:v3")`, host),
	}
	want := os.Getenv("VERIF_REPLAY_OP")
	for name, script := range scripts {
		if want != "" && want != name {
			continue
		}
		s := New(name, WithContext(context.Background()), WithRegClient(rc), WithDryRun())
		err := s.RunScript(script)
		s.Close()
		mu.Lock()
		if len(writes) > 0 {
			t.Errorf("REPRODUCED: dry run of %s sent state-changing requests: %s (script error: %v)", name, strings.Join(writes, ", "), err)
		}
		writes = nil
		mu.Unlock()
	}
	fmt.Println("replay finished")
}
