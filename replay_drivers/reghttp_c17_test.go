package reghttp

// Replay driver for the C17 obligations on internal/reghttp (injected with go test -overlay):
// a response that resumes after a short read (or is rewound with Seek) must not ask for a second
// slot of its host's throttle while it still holds the first one. The host allows ONE concurrent
// request; the server cuts the first answer short so that Resp.Read resumes with a range request.

import (
	"context"
	"fmt"
	"io"
	"net/http"
	"net/http/httptest"
	"net/url"
	"strconv"
	"strings"
	"sync"
	"testing"
	"time"

	"github.com/regclient/regclient/config"
	"github.com/regclient/regclient/internal/reqmeta"
)

func TestVerifReplayThrottleSlotOnResume(t *testing.T) {
	body := strings.Repeat("0123456789abcdef", 64) // 1024 bytes
	var mu sync.Mutex
	seen := map[string]int{}
	srv := httptest.NewServer(http.HandlerFunc(func(w http.ResponseWriter, r *http.Request) {
		mu.Lock()
		seen[r.URL.Path]++
		n := seen[r.URL.Path]
		mu.Unlock()
		if rng := r.Header.Get("Range"); rng != "" {
			var start int
			fmt.Sscanf(rng, "bytes=%d-", &start)
			w.Header().Set("Content-Range", fmt.Sprintf("bytes %d-%d/%d", start, len(body)-1, len(body)))
			w.Header().Set("Content-Length", strconv.Itoa(len(body)-start))
			w.WriteHeader(http.StatusPartialContent)
			_, _ = io.WriteString(w, body[start:])
			return
		}
		w.Header().Set("Content-Length", strconv.Itoa(len(body)))
		w.WriteHeader(http.StatusOK)
		if n == 1 {
			// first answer: half the body, then the connection is dropped
			_, _ = io.WriteString(w, body[:len(body)/2])
			if f, ok := w.(http.Flusher); ok {
				f.Flush()
			}
			if hj, ok := w.(http.Hijacker); ok {
				if conn, _, err := hj.Hijack(); err == nil {
					_ = conn.Close()
				}
			}
			return
		}
		_, _ = io.WriteString(w, body)
	}))
	defer srv.Close()
	u, _ := url.Parse(srv.URL)
	host := &config.Host{Name: u.Host, Hostname: u.Host, TLS: config.TLSDisabled, ReqConcurrent: 1}
	c := NewClient(WithConfigHostFn(func(name string) *config.Host {
		if name == u.Host {
			return host
		}
		return config.HostNewName(name)
	}), WithDelay(time.Millisecond, 10*time.Millisecond), WithRetryLimit(5))

	get := func(path string, rewind bool) (string, error) {
		ctx, cancel := context.WithTimeout(context.Background(), 5*time.Second)
		defer cancel()
		resp, err := c.Do(ctx, &Req{Host: u.Host, Method: "GET", Repository: "proj", Path: path, ExpectLen: int64(len(body))})
		if err != nil {
			return "", fmt.Errorf("do: %w", err)
		}
		defer resp.Close()
		if rewind {
			half := make([]byte, 100)
			if _, err := io.ReadFull(resp, half); err != nil {
				return "", fmt.Errorf("first read: %w", err)
			}
			if _, err := resp.Seek(0, io.SeekStart); err != nil {
				return "", fmt.Errorf("seek: %w", err)
			}
		}
		b, err := io.ReadAll(resp)
		return string(b), err
	}
	// 1. resume after a short read
	got, err := get("blobs/short", false)
	if err != nil || got != body {
		t.Errorf("REPRODUCED: with a throttle of one request per host, the resume after a short read never gets a slot (the response still holds it): err=%v, %d of %d bytes", err, len(got), len(body))
	}
	// 2. rewind of a healthy stream
	mu.Lock()
	seen["/v2/proj/blobs/rewind"] = 1 // served completely from the first request on
	mu.Unlock()
	got, err = get("blobs/rewind", true)
	if err != nil || got != body {
		t.Errorf("REPRODUCED: with a throttle of one request per host, a rewind (Seek) of an open response never gets a slot: err=%v, %d of %d bytes", err, len(got), len(body))
	}
	// 3. nothing was lost: with room for two requests a resume succeeds; after the response is closed
	// both slots of the host must be free again
	host.ReqConcurrent = 2
	c = NewClient(WithConfigHostFn(func(name string) *config.Host {
		if name == u.Host {
			return host
		}
		return config.HostNewName(name)
	}), WithDelay(time.Millisecond, 10*time.Millisecond), WithRetryLimit(5))
	got, err = get("blobs/short2", false)
	if err != nil || got != body {
		t.Errorf("resume with two slots failed: err=%v, %d of %d bytes", err, len(got), len(body))
	}
	ctx, cancel := context.WithTimeout(context.Background(), 3*time.Second)
	defer cancel()
	for i := 0; i < 2; i++ {
		done, err := c.getHost(u.Host).throttle.Acquire(ctx, reqmeta.Data{Kind: reqmeta.Blob})
		if err != nil {
			t.Errorf("REPRODUCED: after the resumed response was closed only %d of the host's 2 throttle slots can be acquired (a slot was lost): %v", i, err)
			break
		}
		defer done()
	}
	fmt.Println("replay finished")
}
