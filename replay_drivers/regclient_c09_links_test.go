// Replay driver for the C09 obligations on link resolution in tarReadAll (injected with go test
// -overlay). Archives are produced by the real ImageExport and rewritten the way another tool could
// have written them: one blob is stored once under another name and blobs/<algo>/<hex> is a link to
// it. A symbolic link names its target relative to the directory of the link, a hard link relative
// to the root of the archive (POSIX pax / GNU tar). Helper code adapted from seeded/C09-c.
package regclient

import (
	"archive/tar"
	"bytes"
	"context"
	"errors"
	"io"
	"net/http/httptest"
	"net/url"
	"strings"
	"testing"

	"github.com/olareg/olareg"
	oConfig "github.com/olareg/olareg/config"
	"github.com/opencontainers/go-digest"

	"github.com/regclient/regclient/config"
	"github.com/regclient/regclient/internal/copyfs"
	"github.com/regclient/regclient/types/descriptor"
	"github.com/regclient/regclient/types/manifest"
	"github.com/regclient/regclient/types/platform"
	"github.com/regclient/regclient/types/ref"
)

type verifTarEntry struct {
	hdr  *tar.Header
	body []byte
}

// verifRelink rewrites an archive produced by ImageExport the way another tool could have written it:
// the content of one blob is stored once as a regular file under casName and the entry
// blobs/<algo>/<hex> becomes a link (hard link or symlink) to it.
// With dockerOrder the entries are additionally sorted the way "docker save" / "tar --sort=name" emit
// them: all blobs first, then index.json, manifest.json, oci-layout.
func verifRelink(t *testing.T, in []byte, d digest.Digest, typeflag byte, casName, linkname string, dockerOrder bool) []byte {
	t.Helper()
	blobName := "blobs/" + d.Algorithm().String() + "/" + d.Encoded()
	entries := []verifTarEntry{}
	tr := tar.NewReader(bytes.NewReader(in))
	for {
		th, err := tr.Next()
		if errors.Is(err, io.EOF) {
			break
		}
		if err != nil {
			t.Fatalf("failed to read exported tar: %v", err)
		}
		b, err := io.ReadAll(tr)
		if err != nil {
			t.Fatalf("failed to read exported tar entry %s: %v", th.Name, err)
		}
		entries = append(entries, verifTarEntry{hdr: th, body: b})
	}
	if dockerOrder {
		meta := map[string]verifTarEntry{}
		sorted := []verifTarEntry{}
		for _, e := range entries {
			if strings.HasPrefix(e.hdr.Name, "blobs/") {
				sorted = append(sorted, e)
			} else {
				meta[e.hdr.Name] = e
			}
		}
		for _, name := range []string{ociIndexFilename, dockerManifestFilename, ociLayoutFilename} {
			e, ok := meta[name]
			if !ok {
				t.Fatalf("exported tar has no %s", name)
			}
			sorted = append(sorted, e)
		}
		entries = sorted
	}
	out := &bytes.Buffer{}
	tw := tar.NewWriter(out)
	found := false
	for _, e := range entries {
		if e.hdr.Name != blobName {
			continue
		}
		found = true
		// the one real copy of the content, outside of the blobs directory
		err := tw.WriteHeader(&tar.Header{Format: tar.FormatPAX, Typeflag: tar.TypeReg, Name: casName, Size: int64(len(e.body)), Mode: 0644})
		if err != nil {
			t.Fatalf("failed to write tar header: %v", err)
		}
		if _, err = tw.Write(e.body); err != nil {
			t.Fatalf("failed to write tar body: %v", err)
		}
	}
	if !found {
		t.Fatalf("blob %s not found in exported tar", blobName)
	}
	for _, e := range entries {
		if e.hdr.Name == blobName {
			err := tw.WriteHeader(&tar.Header{Format: tar.FormatPAX, Typeflag: typeflag, Name: blobName, Linkname: linkname, Mode: 0644})
			if err != nil {
				t.Fatalf("failed to write tar link header: %v", err)
			}
			continue
		}
		if err := tw.WriteHeader(e.hdr); err != nil {
			t.Fatalf("failed to write tar header: %v", err)
		}
		if _, err := tw.Write(e.body); err != nil {
			t.Fatalf("failed to write tar body: %v", err)
		}
	}
	if err := tw.Close(); err != nil {
		t.Fatalf("failed to close tar: %v", err)
	}
	return out.Bytes()
}

func TestVerifReplayImportThroughLinks(t *testing.T) {
	ctx := context.Background()
	tempDir := t.TempDir()
	if err := copyfs.Copy(tempDir+"/testrepo", "testdata/testrepo"); err != nil {
		t.Fatalf("failed to copyfs to tempdir: %v", err)
	}
	// in-memory registry as a second kind of import target
	regHandler := olareg.New(oConfig.Config{
		Storage: oConfig.ConfigStorage{StoreType: oConfig.StoreMem},
	})
	ts := httptest.NewServer(regHandler)
	tsURL, _ := url.Parse(ts.URL)
	tsHost := tsURL.Host
	t.Cleanup(func() {
		ts.Close()
		_ = regHandler.Close()
	})
	rc := New(WithConfigHost(config.Host{Name: tsHost, Hostname: tsHost, TLS: config.TLSDisabled}))

	// pick a single platform image so that the archive also carries the docker manifest.json
	rIdx, err := ref.New("ocidir://" + tempDir + "/testrepo:v1")
	if err != nil {
		t.Fatalf("failed to parse ref: %v", err)
	}
	mIdx, err := rc.ManifestGet(ctx, rIdx)
	if err != nil {
		t.Fatalf("failed to get index: %v", err)
	}
	plat, err := platform.Parse("linux/amd64")
	if err != nil {
		t.Fatalf("failed to parse platform: %v", err)
	}
	imgDesc, err := manifest.GetPlatformDesc(mIdx, &plat)
	if err != nil {
		t.Fatalf("failed to get platform descriptor: %v", err)
	}
	rImg := rIdx.SetDigest(imgDesc.Digest.String())
	mImg, err := rc.ManifestGet(ctx, rImg)
	if err != nil {
		t.Fatalf("failed to get image manifest: %v", err)
	}
	mi, ok := mImg.(manifest.Imager)
	if !ok {
		t.Fatalf("manifest is not an image")
	}
	confDesc, err := mi.GetConfig()
	if err != nil {
		t.Fatalf("failed to get config: %v", err)
	}
	layers, err := mi.GetLayers()
	if err != nil || len(layers) == 0 {
		t.Fatalf("failed to get layers: %v", err)
	}
	srcDigest := mImg.GetDescriptor().Digest
	rName, err := ref.New("registry.example.org/demo:v1")
	if err != nil {
		t.Fatalf("failed to parse ref: %v", err)
	}
	exported := &bytes.Buffer{}
	if err = rc.ImageExport(ctx, rImg, exported, ImageWithExportRef(rName)); err != nil {
		t.Fatalf("failed to export: %v", err)
	}

	layerD := layers[len(layers)-1].Digest
	tt := []struct {
		name    string
		archive []byte
	}{
		{
			// a relative symlink that climbs out of the blob directory
			name:    "symlink-other-dir",
			archive: verifRelink(t, exported.Bytes(), layerD, tar.TypeSymlink, "cas/"+layerD.Encoded(), "../../cas/"+layerD.Encoded(), false),
		},
		{
			// a hard link to a file in another directory (target relative to the archive root)
			name:    "hardlink-other-dir",
			archive: verifRelink(t, exported.Bytes(), layerD, tar.TypeLink, "cas/"+layerD.Encoded(), "cas/"+layerD.Encoded(), false),
		},
		{
			// a relative symlink to a file in the SAME directory as the link
			name:    "symlink-same-dir",
			archive: verifRelink(t, exported.Bytes(), layerD, tar.TypeSymlink, "blobs/"+layerD.Algorithm().String()+"/data-"+layerD.Encoded(), "data-"+layerD.Encoded(), false),
		},
		{
			// a hard link to a file in the SAME directory as the link
			name:    "hardlink-same-dir",
			archive: verifRelink(t, exported.Bytes(), layerD, tar.TypeLink, "blobs/"+layerD.Algorithm().String()+"/data-"+layerD.Encoded(), "blobs/"+layerD.Algorithm().String()+"/data-"+layerD.Encoded(), false),
		},
		{
			// a relative symlink into a sub-directory of the link's directory
			name:    "symlink-sub-dir",
			archive: verifRelink(t, exported.Bytes(), layerD, tar.TypeSymlink, "blobs/"+layerD.Algorithm().String()+"/store/"+layerD.Encoded(), "store/"+layerD.Encoded(), false),
		},
	}
	for _, tc := range tt {
		for _, tgt := range []string{"ocidir://" + tempDir + "/out-" + tc.name + ":v1", tsHost + "/out-" + tc.name + ":v1"} {
			kind := "registry"
			if strings.HasPrefix(tgt, "ocidir://") {
				kind = "ocidir"
			}
			t.Run(tc.name+"/"+kind, func(t *testing.T) {
				rTgt, err := ref.New(tgt)
				if err != nil {
					t.Fatalf("failed to parse ref: %v", err)
				}
				err = rc.ImageImport(ctx, rTgt, bytes.NewReader(tc.archive))
				if err != nil {
					t.Fatalf("REPRODUCED: import of a well formed archive failed: %v", err)
				}
				mTgt, err := rc.ManifestGet(ctx, rTgt)
				if err != nil {
					t.Fatalf("imported image not found at target: %v", err)
				}
				if mTgt.GetDescriptor().Digest != srcDigest {
					bTgt, _ := mTgt.RawBody()
					t.Errorf("import returned nil but the image differs from the original:\n  original digest %s (%s)\n  imported digest %s (%s)\n  imported manifest: %s",
						srcDigest, mImg.GetDescriptor().MediaType, mTgt.GetDescriptor().Digest, mTgt.GetDescriptor().MediaType, string(bTgt))
				}
				for _, d := range append([]descriptor.Descriptor{confDesc}, layers...) {
					b, err := rc.BlobHead(ctx, rTgt, d)
					if err != nil {
						t.Errorf("blob %s of the original image is missing at the target: %v", d.Digest, err)
						continue
					}
					_ = b.Close()
				}
			})
		}
	}
}
