package reghttp

// Replay drivers for C12 obligations on internal/reghttp (injected with go test -overlay).

import (
	"fmt"
	"os"
	"sort"
	"strings"
	"testing"
	"time"

	"github.com/regclient/regclient/config"
)

// mirror order: hosts that are not backing off must be sorted by descending priority.
func TestVerifReplayMirrorOrder(t *testing.T) {
	hosts := []*clientHost{
		{config: &config.Host{Name: "upstream.example", Priority: 5}},
		{config: &config.Host{Name: "mirror-hi.example", Priority: 10}},
		{config: &config.Host{Name: "mirror-lo.example", Priority: 1}},
	}
	less := sortHostsCmp(hosts, "upstream.example")
	// the comparator itself (the clause of the lemma): host 0 (prio 5) vs host 1 (prio 10)
	if less(0, 1) && hosts[0].config.Priority < hosts[1].config.Priority {
		t.Errorf("REPRODUCED: comparator ranks priority %d before priority %d (less(0,1)=true, less(1,0)=%v)", hosts[0].config.Priority, hosts[1].config.Priority, less(1, 0))
	}
	sort.Slice(hosts, sortHostsCmp(hosts, "upstream.example"))
	var order []string
	for _, h := range hosts {
		order = append(order, fmt.Sprintf("%s(%d)", h.config.Name, h.config.Priority))
	}
	for i := 1; i < len(hosts); i++ {
		if hosts[i-1].config.Priority < hosts[i].config.Priority {
			t.Errorf("REPRODUCED: sorted host list is not in descending priority order: %s", strings.Join(order, ", "))
			break
		}
	}
	fmt.Println("replay finished:", strings.Join(order, ", "))
}

// backoff delay: for a host that keeps failing the delay must never fall below
// min(delayInit * 2^backoffCur, delayMax); the shift must not overflow.
func TestVerifReplayBackoffGet(t *testing.T) {
	_ = os.Getenv("VERIF_REPLAY_MODEL")
	for _, cur := range []int{1, 8, 36, 37, 40, 63, 64, 100} {
		c := NewClient(WithDelay(100*time.Millisecond, 30*time.Second))
		ch := c.getHost("registry.example")
		start := time.Now().Add(time.Hour) // a fixed reference in the future, so "now" never wins
		ch.backoffCur = cur
		ch.backoffLast = start
		resp := &Resp{client: c, mirror: "registry.example"}
		got := resp.backoffGet()
		want := 30 * time.Second
		if cur < 20 {
			d := 100 * time.Millisecond << uint(cur)
			if d < want {
				want = d
			}
		}
		if got.Sub(start) < want {
			t.Errorf("REPRODUCED: backoffCur=%d: next request released after %v, expected at least %v", cur, got.Sub(start), want)
		}
	}
	fmt.Println("replay finished")
}
