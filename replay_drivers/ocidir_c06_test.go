package ocidir

// Replay driver for C06 on scheme/ocidir (injected with go test -overlay): deleting a tag must
// remove every index entry carrying that tag and nothing else.

import (
	"context"
	"fmt"
	"os"
	"path/filepath"
	"testing"

	"github.com/regclient/regclient/types/ref"
)

func TestVerifReplayTagDelete(t *testing.T) {
	ctx := context.Background()
	layout := t.TempDir()
	os.MkdirAll(filepath.Join(layout, "blobs", "sha256"), 0o777)
	os.WriteFile(filepath.Join(layout, "oci-layout"), []byte(`{"imageLayoutVersion":"1.0.0"}`), 0o666)
	dA := "sha256:aaaaaaaaaaaaaaaaaaaaaaaaaaaaaaaaaaaaaaaaaaaaaaaaaaaaaaaaaaaaaaaa"
	dB := "sha256:bbbbbbbbbbbbbbbbbbbbbbbbbbbbbbbbbbbbbbbbbbbbbbbbbbbbbbbbbbbbbbbb"
	// an index (as other tools may write it) with two adjacent entries for tag "t" and one for "other"
	idx := fmt.Sprintf(`{"schemaVersion":2,"mediaType":"application/vnd.oci.image.index.v1+json","manifests":[
	 {"mediaType":"application/vnd.oci.image.manifest.v1+json","digest":%q,"size":2,"annotations":{"org.opencontainers.image.ref.name":"t"}},
	 {"mediaType":"application/vnd.oci.image.manifest.v1+json","digest":%q,"size":2,"annotations":{"org.opencontainers.image.ref.name":"t"}},
	 {"mediaType":"application/vnd.oci.image.manifest.v1+json","digest":%q,"size":2,"annotations":{"org.opencontainers.image.ref.name":"other"}}]}`, dA, dB, dA)
	os.WriteFile(filepath.Join(layout, "index.json"), []byte(idx), 0o666)
	o := New()
	r, err := ref.New("ocidir://" + layout + ":t")
	if err != nil {
		t.Fatal(err)
	}
	if err := o.TagDelete(ctx, r); err != nil {
		t.Fatalf("TagDelete: %v", err)
	}
	tl, err := o.TagList(ctx, r)
	if err != nil {
		t.Fatal(err)
	}
	tags, _ := tl.GetTags()
	for _, tg := range tags {
		if tg == "t" {
			t.Errorf("REPRODUCED: TagDelete(t) returned nil but the tag is still listed: %v", tags)
		}
	}
	found := false
	for _, tg := range tags {
		if tg == "other" {
			found = true
		}
	}
	if !found {
		t.Errorf("REPRODUCED: TagDelete(t) removed another tag: %v", tags)
	}
	fmt.Println("replay finished", tags)
}
