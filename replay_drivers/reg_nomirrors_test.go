package reg

// Replay driver for C12 "writes skip mirrors" (injected with go test -overlay; never written to /repo).
// A registry and a mirror are two recording HTTP servers; the host is configured with the mirror
// at a higher priority. Every state-changing operation of the reg scheme is issued once and the
// driver fails if any request other than GET/HEAD reaches the mirror.
// VERIF_REPLAY_OP selects one operation ("" = all).

import (
	"bytes"
	"context"
	"fmt"
	"net/http"
	"net/http/httptest"
	"net/url"
	"os"
	"strings"
	"sync"
	"testing"
	"time"

	"github.com/opencontainers/go-digest"

	"github.com/regclient/regclient/config"
	"github.com/regclient/regclient/types/descriptor"
	"github.com/regclient/regclient/types/manifest"
	"github.com/regclient/regclient/types/mediatype"
	"github.com/regclient/regclient/types/ref"
)

type verifRecorder struct {
	mu   sync.Mutex
	reqs []string
}

func (v *verifRecorder) handler(name string) http.Handler {
	return http.HandlerFunc(func(w http.ResponseWriter, r *http.Request) {
		v.mu.Lock()
		v.reqs = append(v.reqs, name+" "+r.Method+" "+r.URL.Path)
		v.mu.Unlock()
		switch {
		case r.URL.Path == "/v2/":
			w.WriteHeader(200)
		case r.Method == "DELETE":
			w.WriteHeader(202)
		case r.Method == "POST":
			w.Header().Set("Location", r.URL.Path+"session1")
			w.WriteHeader(202)
		case r.Method == "PUT" || r.Method == "PATCH":
			w.Header().Set("Location", r.URL.Path)
			w.WriteHeader(201)
		default:
			w.WriteHeader(404)
		}
	})
}

func TestVerifReplayNoMirrors(t *testing.T) {
	// both priority orders, so the mirror is tried first whichever way priorities are sorted
	for _, prio := range [][2]uint{{1, 10}, {10, 1}} {
		verifReplayNoMirrors(t, prio[0], prio[1])
	}
	fmt.Println("replay finished")
}

func verifReplayNoMirrors(t *testing.T, prioUp, prioMirror uint) {
	rec := &verifRecorder{}
	upstream := httptest.NewServer(rec.handler("upstream"))
	defer upstream.Close()
	mirror := httptest.NewServer(rec.handler("mirror"))
	defer mirror.Close()
	uu, _ := url.Parse(upstream.URL)
	mu, _ := url.Parse(mirror.URL)
	hosts := []*config.Host{
		{Name: uu.Host, Hostname: uu.Host, TLS: config.TLSDisabled, Mirrors: []string{mu.Host}, Priority: prioUp},
		{Name: mu.Host, Hostname: mu.Host, TLS: config.TLSDisabled, Priority: prioMirror},
	}
	reg := New(WithConfigHosts(hosts), WithDelay(time.Millisecond, 10*time.Millisecond), WithRetryLimit(2))
	ctx, cancel := context.WithTimeout(context.Background(), 20*time.Second)
	defer cancel()
	r, err := ref.New(uu.Host + "/proj/repo:tag")
	if err != nil {
		t.Fatal(err)
	}
	body := []byte("hello verif")
	d := descriptor.Descriptor{MediaType: mediatype.OCI1Layer, Digest: digest.FromBytes(body), Size: int64(len(body))}
	mBody := []byte(`{"schemaVersion":2,"mediaType":"application/vnd.oci.image.manifest.v1+json","config":{"mediaType":"application/vnd.oci.image.config.v1+json","digest":"sha256:44136fa355b3678a1146ad16f7e8649e94fb4fc21fe77e8310c060f61caaff8a","size":2},"layers":[]}`)
	m, err := manifest.New(manifest.WithRaw(mBody))
	if err != nil {
		t.Fatal(err)
	}
	rDig := r.SetDigest(m.GetDescriptor().Digest.String())
	ops := map[string]func() error{
		"BlobDelete":     func() error { return reg.BlobDelete(ctx, r, d) },
		"BlobPut":        func() error { _, err := reg.BlobPut(ctx, r, d, bytes.NewReader(body)); return err },
		"ManifestPut":    func() error { return reg.ManifestPut(ctx, r, m) },
		"ManifestDelete": func() error { return reg.ManifestDelete(ctx, rDig) },
		"TagDelete":      func() error { return reg.TagDelete(ctx, r) },
	}
	want := os.Getenv("VERIF_REPLAY_OP")
	for name, op := range ops {
		if want != "" && !strings.Contains(want, name) {
			continue
		}
		rec.mu.Lock()
		rec.reqs = nil
		rec.mu.Unlock()
		_ = op() // the outcome does not matter, only where requests went
		rec.mu.Lock()
		for _, q := range rec.reqs {
			f := strings.Fields(q)
			if f[0] == "mirror" && f[1] != "GET" && f[1] != "HEAD" {
				t.Errorf("REPRODUCED: %s sent a state-changing request to the mirror: %s (all requests: %v)", name, q, rec.reqs)
			}
		}
		rec.mu.Unlock()
	}
}
