package reg

// Replay driver for C12 on scheme/reg (injected with go test -overlay): an upload session must not
// keep repeating a chunk once its retry budget is used up. The registry accepts the first chunk
// and then answers every PATCH with 416, a Location and a Range that reports no progress.

import (
	"bytes"
	"context"
	"fmt"
	"io"
	"log/slog"
	"net/http"
	"net/http/httptest"
	"net/url"
	"sync/atomic"
	"testing"
	"time"

	"github.com/regclient/regclient/config"
	"github.com/regclient/regclient/types/descriptor"
	"github.com/regclient/regclient/types/ref"
)

func TestVerifReplayUploadNoProgress(t *testing.T) {
	var patches int64
	ts := httptest.NewServer(http.HandlerFunc(func(w http.ResponseWriter, r *http.Request) {
		switch {
		case r.Method == http.MethodPost:
			w.Header().Set("Location", "/v2/proj/blobs/uploads/session-1")
			w.Header().Set("Range", "0-0")
			w.WriteHeader(http.StatusAccepted)
		case r.Method == http.MethodPatch:
			n := atomic.AddInt64(&patches, 1)
			w.Header().Set("Location", "/v2/proj/blobs/uploads/session-1")
			w.Header().Set("Range", "0-511")
			if n == 1 {
				w.WriteHeader(http.StatusAccepted)
			} else {
				w.WriteHeader(http.StatusRequestedRangeNotSatisfiable)
			}
		case r.Method == http.MethodGet && r.URL.Path == "/v2/":
			w.WriteHeader(http.StatusOK)
		default:
			w.WriteHeader(http.StatusNotFound)
		}
	}))
	defer ts.Close()
	u, _ := url.Parse(ts.URL)
	reg := New(WithConfigHosts([]*config.Host{{Name: u.Host, Hostname: u.Host, TLS: config.TLSDisabled, BlobChunk: 512, BlobMax: -1}}),
		WithDelay(time.Millisecond, 5*time.Millisecond), WithSlog(slog.New(slog.NewTextHandler(io.Discard, nil))))
	r, err := ref.New(u.Host + "/proj")
	if err != nil {
		t.Fatal(err)
	}
	ctx, cancel := context.WithTimeout(context.Background(), 3*time.Second)
	defer cancel()
	blob := bytes.Repeat([]byte("x"), 2048)
	done := make(chan error, 1)
	go func() {
		// size only: goes straight to the chunked upload
		_, err := reg.BlobPut(ctx, r, descriptor.Descriptor{Size: int64(len(blob))}, bytes.NewReader(blob))
		done <- err
	}()
	var errPut error
	select {
	case errPut = <-done:
	case <-time.After(10 * time.Second):
		errPut = fmt.Errorf("BlobPut did not return within 10s")
	}
	n := atomic.LoadInt64(&patches)
	if n > 40 {
		t.Errorf("REPRODUCED: the upload sent %d PATCH requests for the same chunk (offset 512) to a registry that never reported progress; it only stopped with: %v", n, errPut)
	}
	fmt.Printf("replay finished: %d PATCH requests, err=%v\n", n, errPut)
}
