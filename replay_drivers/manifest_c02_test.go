package manifest

// Replay driver for C02 on types/manifest (injected with go test -overlay): the descriptor a
// manifest reports must be the hash and the length of its raw bytes.

import (
	"fmt"
	"os"
	"strings"
	"testing"

	"github.com/regclient/regclient/types/descriptor"
	"github.com/regclient/regclient/types/mediatype"
	v1 "github.com/regclient/regclient/types/oci/v1"
)

func verifC02Check(t *testing.T, what string, m Manifest) {
	raw, err := m.RawBody()
	if err != nil {
		t.Fatalf("%s: RawBody: %v", what, err)
	}
	d := m.GetDescriptor()
	if d.Size != int64(len(raw)) {
		t.Errorf("REPRODUCED: %s: descriptor size %d but the raw body has %d bytes", what, d.Size, len(raw))
	}
	if want := d.Digest.Algorithm().FromBytes(raw); want != d.Digest {
		t.Errorf("REPRODUCED: %s: descriptor digest %s but the raw body hashes to %s", what, d.Digest, want)
	}
}

func TestVerifReplayFromOrig(t *testing.T) {
	obl := os.Getenv("VERIF_REPLAY_OBLIGATION")
	orig := v1.Manifest{
		Versioned: v1.ManifestSchemaVersion,
		MediaType: mediatype.OCI1Manifest,
		Config:    descriptor.Descriptor{MediaType: mediatype.OCI1ImageConfig, Digest: "sha256:44136fa355b3678a1146ad16f7e8649e94fb4fc21fe77e8310c060f61caaff8a", Size: 2},
		Layers:    []descriptor.Descriptor{},
	}
	if !strings.Contains(obl, "when-raw-given") {
		// a descriptor whose size is that of ANOTHER serialisation of the manifest (e.g. taken from
		// the fetched, non-canonical original before a digest-algorithm change: mod/manifest.go)
		m, err := New(WithOrig(orig), WithDesc(descriptor.Descriptor{MediaType: mediatype.OCI1Manifest, Size: 9999}))
		if err != nil {
			t.Fatalf("New: %v", err)
		}
		verifC02Check(t, "New(WithOrig, WithDesc{Size: 9999})", m)
	}
	if obl == "" || strings.Contains(obl, "when-raw-given") {
		// raw bytes that differ from the canonical serialisation (pretty printed)
		canon, err := New(WithOrig(orig))
		if err != nil {
			t.Fatal(err)
		}
		pretty, err := canon.(interface{ MarshalPretty() ([]byte, error) }).MarshalPretty()
		if err != nil {
			t.Fatal(err)
		}
		rawIn := []byte("{ \n" + strings.TrimPrefix(string(mustJSON(t, canon)), "{"))
		_ = pretty
		m, err := New(WithOrig(orig), WithRaw(rawIn))
		if err != nil {
			t.Fatalf("New: %v", err)
		}
		verifC02Check(t, "New(WithOrig, WithRaw(same JSON with extra whitespace))", m)
	}
	fmt.Println("replay finished")
}

func mustJSON(t *testing.T, m Manifest) []byte {
	b, err := m.RawBody()
	if err != nil {
		t.Fatal(err)
	}
	return b
}
