package ref

// Replay driver for C15 (injected with go test -overlay): every accepted reference must print
// to something that parses back to the same components.

import (
	"fmt"
	"testing"
)

func TestVerifReplayRefRoundTrip(t *testing.T) {
	for _, s := range []string{"ocifile://some/path:tag", "ocifile://path/to/file.tgz", "ocidir://some/path:tag", "alpine", "localhost:5000/x/y@sha256:0123456789abcdef0123456789abcdef0123456789abcdef0123456789abcdef"} {
		r, err := New(s)
		if err != nil {
			continue
		}
		cn := r.CommonName()
		r2, err2 := New(cn)
		if cn == "" || err2 != nil || r2.Scheme != r.Scheme || r2.Registry != r.Registry || r2.Repository != r.Repository || r2.Tag != r.Tag || r2.Digest != r.Digest || r2.Path != r.Path {
			t.Errorf("REPRODUCED: New(%q) is accepted (scheme %q) but prints as %q, which re-parses to %+v (err %v)", s, r.Scheme, cn, r2, err2)
		}
	}
	fmt.Println("replay finished")
}
