package ocidir

// Replay driver for C07 on scheme/ocidir (injected with go test -overlay): the process is killed
// (SIGKILL injected by strace at a chosen system call) while a real ocidir operation rewrites the
// layout; afterwards an independent client must still read every tag that was not the target.
//
// The crash point replayed here is the one named by the failing obligation
// "never-create-or-truncate-in-place": the first write(2) to <layout>/oci-layout after the file
// has been truncated by os.Create.

import (
	"context"
	"fmt"
	"os"
	"os/exec"
	"path/filepath"
	"testing"

	"github.com/regclient/regclient/types/manifest"
	"github.com/regclient/regclient/types/ref"
)

const verifC07Manifest = `{"schemaVersion":2,"mediaType":"application/vnd.oci.image.manifest.v1+json","config":{"mediaType":"application/vnd.oci.empty.v1+json","digest":"sha256:44136fa355b3678a1146ad16f7e8649e94fb4fc21fe77e8310c060f61caaff8a","size":2},"layers":[]}`

func verifC07Put(ctx context.Context, o *OCIDir, layout, tag string) error {
	r, err := ref.New("ocidir://" + layout + ":" + tag)
	if err != nil {
		return err
	}
	m, err := manifest.New(manifest.WithRaw([]byte(verifC07Manifest)))
	if err != nil {
		return err
	}
	return o.ManifestPut(ctx, r, m)
}

func TestVerifReplayCrashMarker(t *testing.T) {
	ctx := context.Background()
	if layout := os.Getenv("VERIF_C07_CHILD"); layout != "" {
		// child: one more tag push into the populated layout; killed part-way by strace
		err := verifC07Put(ctx, New(), layout, "second")
		fmt.Println("child finished without being killed:", err)
		return
	}
	if _, err := exec.LookPath("strace"); err != nil {
		t.Skip("strace not available")
	}
	layout := t.TempDir()
	if err := verifC07Put(ctx, New(), layout, "first"); err != nil {
		t.Fatalf("populate: %v", err)
	}
	marker := filepath.Join(layout, "oci-layout")
	before, _ := os.ReadFile(marker)
	cmd := exec.Command("strace", "-f", "-o", os.DevNull, "-P", marker, "-e", "trace=write",
		"-e", "inject=write:signal=KILL:when=1", os.Args[0], "-test.run", "^TestVerifReplayCrashMarker$")
	cmd.Env = append(os.Environ(), "VERIF_C07_CHILD="+layout)
	out, err := cmd.CombinedOutput()
	after, _ := os.ReadFile(marker)
	fmt.Printf("child: err=%v out=%q\nmarker before=%q after=%q\n", err, string(out), string(before), string(after))
	// independent client after the crash
	o := New()
	r, _ := ref.New("ocidir://" + layout + ":first")
	if _, err := o.ManifestHead(ctx, r); err != nil {
		t.Errorf("REPRODUCED: after a kill at the first write to oci-layout, tag \"first\" (not the target of the interrupted push) is unreadable: %v", err)
	}
	// the next write must not wipe the index either
	if err := verifC07Put(ctx, New(), layout, "third"); err != nil {
		t.Errorf("push after crash failed: %v", err)
	}
	if _, err := New().ManifestHead(ctx, r); err != nil {
		t.Errorf("REPRODUCED: after the crash and one further push, tag \"first\" no longer resolves: %v", err)
	}
	fmt.Println("replay finished")
}
