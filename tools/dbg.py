#!/usr/bin/env python3
"""debug helper: dbg.py <file.smt2> [memkey-substring]  - drops quantified definitions, runs z3-new, lists undefined (havocked) versions of memories"""
import sys,re,subprocess
f=sys.argv[1]
L=open(f).read().split('\n')
import re as _re
out=[(('(assert '+_re.match(r'\(assert \(= (qa_\d+) ',l).group(1)+')') if l.startswith('(assert (= qa_') else l) for l in L if 'forall ((k Int))' not in l and '(forall ((s Str))' not in l]
open('/var/tmp/dbg.smt2','w').write('\n'.join(out))
r=subprocess.run(['z3-new','-T:60','/var/tmp/dbg.smt2'],capture_output=True,text=True).stdout
print('result:',r.split('\n')[0])
open('/var/tmp/dbg.out','w').write(r)
if len(sys.argv)>2:
    key=sys.argv[2]
    decl=[];defd=set()
    for i,l in enumerate(L):
        m=re.match(r'\(declare-const (\S*'+re.escape(key)+r'\S*) ',l)
        if m: decl.append((i+1,m.group(1)))
        m=re.match(r'\(assert \(= (\S*'+re.escape(key)+r'\S*) ',l)
        if m: defd.add(m.group(1))
    for i,n in decl:
        print(i,n,'defined' if n in defd else 'HAVOC')
