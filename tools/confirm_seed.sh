#!/bin/bash
# usage: confirm_seed.sh <seed-id> <pkg-dir> <test-regex>
# Confirms a seeded change in a scratch worktree: demo fails with the change, passes without; build and suite pass with it.
id=$1; pkg=$2; re=$3
echo "#### $id ($pkg, $re) $(date -u +%FT%TZ)"
export GOFLAGS=-mod=mod GOPROXY=off GOSUMDB=off GOTOOLCHAIN=local
d=/tmp/confirm-$id
git -C /repo worktree remove --force $d 2>/dev/null; rm -rf $d
git -C /repo worktree add --detach $d HEAD >/dev/null 2>&1 || exit 2
cd $d
cp /verif/seeded/$id/demo_test.go $pkg/zz_seed_demo_test.go
echo "== demo WITHOUT change"; go test -vet=off -count=1 -run "$re" ./$pkg 2>&1 | tail -3
git apply /verif/seeded/$id/patch.diff || { echo "PATCH DOES NOT APPLY"; }
echo "== build WITH change"; go build ./... 2>&1 | tail -3
echo "== demo WITH change"; go test -vet=off -count=1 -run "$re" ./$pkg 2>&1 | grep -E "^(--- FAIL|FAIL|ok|PASS)" | head -5
rm $pkg/zz_seed_demo_test.go
echo "== suite WITH change"; go test -vet=off -count=1 ./... 2>&1 | grep -v "^ok\|no test files" | grep -E "^(FAIL|---)" | head
cd /; git -C /repo worktree remove --force $d; rm -rf $d
