#!/usr/bin/env python3
"""Run before committing /verif: every evidence file validates against the schema and records a
clean run on the unchanged tree (discharged == obligations, no violations)."""
import json, glob, sys
try:
    import jsonschema
except ImportError:
    jsonschema = None
sch = json.load(open('/root/.vp/EVIDENCE.schema.json'))
bad = 0
for f in sorted(glob.glob('/verif/evidence/*.json')):
    d = json.load(open(f))
    if jsonschema:
        jsonschema.validate(d, sch)
    c = d['coverage']
    if c['obligations'] != c['discharged'] or d.get('violations', 0) != 0 or c.get('broken'):
        print('STALE OR FAILING EVIDENCE', f, c['obligations'], c['discharged'], d.get('violations'), c.get('broken'))
        bad += 1
print('evidence files ok' if not bad else '%d bad evidence files: run tools/runall.sh on a quiet machine' % bad)
sys.exit(1 if bad else 0)
