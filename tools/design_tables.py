#!/usr/bin/env python3
"""Regenerates the generated tables of DESIGN.md (between <!-- BEGIN:x --> / <!-- END:x --> markers)
from known_findings.json, seeded/*/meta.json and MANIFEST.json."""
import json, glob, os, re
os.chdir('/verif')
def esc(s): return str(s).replace('|','\\|').replace('\n',' ')
def findings():
    k=json.load(open('known_findings.json'))
    by={}
    for e in k: by.setdefault(e['id'],[]).append(e)
    out=["| id | property | status | failing obligation(s) | what |","|---|---|---|---|---|"]
    for fid in sorted(by,key=lambda x:int(x[1:])):
        es=by[fid]; e=es[0]
        obl="<br>".join("`%s`"%esc(x['obligation']) for x in es)
        st=e['status']+(" (`"+e['commit']+"`)" if e.get('commit') else "")
        out.append(f"| {fid} | {e['property']} | {st} | {obl} | {esc(e['what'])} |")
    return "\n".join(out)
def seeds():
    out=["| seed | breaks | needs | detected | failing obligation(s) | first version of the check |","|---|---|---|---|---|---|"]
    for d in sorted(glob.glob('seeded/C*-*')):
        if not os.path.isdir(d): continue
        m=json.load(open(d+'/meta.json'))
        by_=m.get('detected_by') or []
        hist=m.get('history') or m.get('note') or 'caught'
        first='missed, check strengthened' if ('MISSED' in hist or 'missed' in hist) else 'caught'
        out.append(f"| {os.path.basename(d)} | {esc(m.get('breaks',''))[:260]} | {esc(m.get('needs',''))[:160]} | {'yes' if m.get('detected') else 'NO'} | {'<br>'.join('`%s`'%esc(b) for b in by_[:3])} | {first}: {esc(hist)[:330]} |")
    return "\n".join(out)
def checks():
    m=json.load(open('MANIFEST.json'))
    out=["| id | level | obligations on the current tree | known findings |","|---|---|---|---|"]
    for c in m['checks']:
        ev={}
        try: ev=json.load(open(c['evidence_file']))
        except Exception: pass
        cov=ev.get('coverage',{}) if isinstance(ev,dict) else {}
        n=ev.get('obligations') or cov.get('obligations') or '?'
        kf=[l for l in ev.get('known_findings',[])] if isinstance(ev.get('known_findings',[]),list) else []
        out.append(f"| {c['property_id']} | {c['level_claimed']['category']} | {n} | {len(kf)} |")
    return "\n".join(out)
gen={'findings':findings,'seeds':seeds}
s=open('DESIGN.md').read()
for name,fn in gen.items():
    pat=re.compile(r'(<!-- BEGIN:%s -->\n).*?(<!-- END:%s -->)'%(name,name),re.S)
    if pat.search(s):
        s=pat.sub(lambda m_: m_.group(1)+fn()+"\n"+m_.group(2),s)
    else:
        print("marker missing:",name)
open('DESIGN.md','w').write(s)
print("tables regenerated")
