#!/usr/bin/env python3
# usage: seed_meta.py <file.json>   - file: {id: {breaks, needs, demo, confirmed, history}}
# Applies each seed to a scratch worktree, runs the property's check, records the violated obligations in seeded/<id>/meta.json.
import json,subprocess,sys,os,re
texts=json.load(open(sys.argv[1]))
for sid,t in texts.items():
    prop=sid.split('-')[0]
    wt=f'/var/tmp/seedmeta-{sid}'
    subprocess.run(['git','-C','/repo','worktree','remove','--force',wt],capture_output=True)
    subprocess.run(['git','-C','/repo','worktree','add','--detach',wt,'HEAD'],capture_output=True,check=True)
    subprocess.run(['git','-C',wt,'apply',f'/verif/seeded/{sid}/patch.diff'],check=True)
    r=subprocess.run(['/verif/bin/govc','check','--repo',wt,'--property',prop,'--evidence-dir','/var/tmp/seed-evidence'],capture_output=True,text=True)
    obls=re.findall(r'^VIOLATION .*?obligation=(\S+)',r.stdout,re.M)
    subprocess.run(['git','-C','/repo','worktree','remove','--force',wt],capture_output=True)
    m={"property":prop,"breaks":t["breaks"],"needs":t["needs"],"demo":t["demo"],"confirmed":t["confirmed"],
       "detected_by":obls,"detected":r.returncode==1 and len(obls)>0,"history":t["history"],
       "ran":f"selftest/seeds.sh {sid} (scratch worktree, patch applied, govc check --property {prop}: exit {r.returncode} with the VIOLATION lines above)"}
    json.dump(m,open(f'/verif/seeded/{sid}/meta.json','w'),indent=1)
    print(sid,r.returncode,len(obls))
