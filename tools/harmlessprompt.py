import json,sys
wt=sys.argv[1]; pids=sys.argv[2:]
props=[json.loads(l) for l in open('/verif/properties.jsonl')]
txt=""
for p in props:
    if p['id'] in pids:
        txt+=f"\n### {p['id']}: {p['title']}\n{p['statement']}\nRelevant code: {', '.join(p['anchors']['files'])}\n"
print(f'''You are helping test a verification framework for FALSE ALARMS by producing BEHAVIOUR-PRESERVING edits ("harmless changes") to a Go code base. Work ONLY inside the scratch git worktree {wt} (a checkout of the Go project regclient/regclient: a client library + CLIs for OCI/Docker registries). Do NOT read or write anything under /verif or /repo. Do not use the network (there is none). Every shell call that runs go must first do: `export GOFLAGS=-mod=mod GOPROXY=off GOSUMDB=off GOTOOLCHAIN=local`.

For EACH of the properties below, produce THREE separate, independent small edits (3-25 changed lines each) to NON-test .go files among the property's relevant code, inside the functions that implement the property, such that the program's observable behaviour is exactly the same and the property therefore still holds. They should be edits a maintainer would realistically make: rename a local variable, introduce or remove a temporary, reorder two independent statements, invert an if/else, merge or split a condition, turn `for _, x := range s` into an index loop, extract a few lines into a small helper function (or inline one), move a declaration, add a debug log line, change the wording of an error message (keeping any %w wrapping and the wrapped sentinel error), replace `if err != nil {{ return err }}; return nil` by `return err`, add an extra defensive nil check that cannot trigger, use a different but equivalent standard-library call (strings.HasPrefix vs slicing, etc.). Vary the kinds of edit; prefer the functions at the heart of the property (where checks and writes happen), not peripheral ones. Do NOT change behaviour in any input, ordering of externally visible effects (HTTP requests, file operations), locking, or error values.
{txt}
Requirements:
1. Each edit is made against the clean checkout (not stacked): make edit, save `git diff` to {wt}/_out/<PROPERTY-ID>-<short-kebab-name>.diff (for example C05-loop-index.diff), then `git checkout -- .` before the next.
2. Each diff must apply with `git apply` to the clean checkout, and with it applied `go build ./...` must succeed and the tests of the touched package(s) must pass (`go test -vet=off -count=1 ./<pkg>/...`; the test ExampleNew of the root package fails without network even on a clean checkout - ignore only that one).
3. Write {wt}/_out/NOTES.md listing each diff with one line saying what it does and why it preserves behaviour.
When finished leave the worktree clean (git checkout -- .). In your final answer list the diff files.''')
