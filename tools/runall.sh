#!/bin/bash
# runs the quick command of every check in MANIFEST.json in parallel (4 at a time) and prints exit codes
cd /verif
python3 -c "
import json
for c in json.load(open('MANIFEST.json'))['checks']: print(c['property_id'])" > /var/tmp/props.txt
cat /var/tmp/props.txt | xargs -P 2 -I{} sh -c '/verif/bin/govc check --property {} > /var/tmp/runall_{}.log 2>&1; echo "{} exit=$? $(tail -1 /var/tmp/runall_{}.log)"' | sort
