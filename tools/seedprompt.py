import json,sys
pid,wt,extra=sys.argv[1],sys.argv[2],sys.argv[3] if len(sys.argv)>3 else ""
for l in open('/verif/properties.jsonl'):
    p=json.loads(l)
    if p['id']==pid: break
print(f'''You are helping test a verification framework by producing a realistic, subtle BUG INJECTION ("seeded change") into a Go code base. Work ONLY inside the scratch git worktree {wt} (a checkout of the Go project regclient/regclient: a client library + CLIs for OCI/Docker registries). Do NOT read or write anything under /verif or /repo. Do not use the network (there is none). Every shell call that runs go must first do: `export GOFLAGS=-mod=mod GOPROXY=off GOSUMDB=off GOTOOLCHAIN=local`.

The property your change must BREAK (this is the only specification you get):

"{p['title']}. {p['statement']}" (Quantified: {p['quantifier']['text']})

Relevant code: {', '.join(p['anchors']['files'])}. Read the code first. {extra}

Requirements for the change:
1. A small source change to NON-test .go files (a plausible maintenance edit / refactoring slip, 1-15 lines) that makes the property false.
2. The project must still compile (`go build ./...`) and the EXISTING test suite must still pass: run `go test -vet=off -count=1 ./...` in {wt} before and after (the test `ExampleNew` in the root package fails even without any change because there is no network — ignore that one only).
3. The breakage must need something SPECIFIC to manifest — a particular interleaving, a fault or cancellation at a particular point, a multi-step sequence of operations, an unusual input or pre-existing state, a particular option combination, or two cooperating sites that each look fine alone — NOT something ordinary use would expose at once.
4. Write a demonstration: a Go test file that FAILS with your change and PASSES without it (verify both, e.g. with `git apply -R _seed/patch.diff` and `git apply _seed/patch.diff` - do NOT use `git stash`, the stash is shared with other worktrees), showing the property violation on the real code. The repository's own tests show how to set up an in-memory registry (github.com/olareg/olareg behind httptest, with testdata/ as a store) and OCI layouts in temp dirs; wrap the registry handler in your own http.Handler to inject faults, latencies or to record requests.

Deliverables, all under {wt}/_seed/ :
- patch.diff : `git diff` of the non-test source change only (must apply with `git apply` to a clean checkout).
- demo_test.go : the demonstration test, with a comment at the top saying into which package directory it must be copied and the exact `go test` command to run it.
- NOTES.md : what the change does, why existing tests do not catch it, what specific condition is needed to manifest, and the exact commands you ran with their results.
When finished, leave the worktree with your source change APPLIED (and no demo file inside the package directories). In your final answer, summarise the change and list the file paths.''')
