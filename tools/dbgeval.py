#!/usr/bin/env python3
"""dbgeval.py <pattern> <addr-term> : after dbg.py, evaluates (select <mem> <addr>) for all memory versions whose name contains pattern"""
import re,subprocess,sys
pat,addr=sys.argv[1],sys.argv[2]
s=open('/var/tmp/dbg.smt2').read().replace('(get-model)','')
names=re.findall(r'\(declare-const (\S*'+re.escape(pat)+r'\S*) \(Array',s)
ev=''
for n in names: ev+=f'(echo "{n}")\n(eval (select {n} {addr}))\n'
for extra in sys.argv[3:]: ev+=f'(echo "{extra}")\n(eval {extra})\n'
open('/var/tmp/dbg2.smt2','w').write(s+ev)
r=subprocess.run(['z3-new','-T:60','/var/tmp/dbg2.smt2'],capture_output=True,text=True).stdout
print(r)
