#!/bin/bash
# usage: mkworktree.sh <name>  -> creates /tmp/seed-<name>, a scratch worktree of /repo HEAD without contract files
set -e
d=/tmp/seed-$1
git -C /repo worktree remove --force $d 2>/dev/null || true
rm -rf $d
git -C /repo worktree add --detach $d HEAD >/dev/null 2>&1
cd $d
find . -name zz_verif_contracts.go -delete
git -c user.email=x@x -c user.name=x commit -qam "scratch base (contract files removed)" 
mkdir -p _seed
echo $d
