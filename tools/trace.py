#!/usr/bin/env python3
"""trace.py: after `GOVC_DEBUG=1 govc ... --keep > /var/tmp/trace.txt` and dbg.py, print the branches taken on the model's path"""
import re
m=open('/var/tmp/dbg.out').read()
vals=dict(re.findall(r'\(define-fun (\S+) \(\) Bool\n\s*(true|false)\)',m))
for l in open('/var/tmp/trace.txt'):
    mm=re.match(r'  if (\S+) reach (\S+) (.*)',l)
    if mm:
        c,r,rest=mm.groups()
        if vals.get(r,r)=='true':
            print(vals.get(c,c), rest[:160])
