#!/usr/bin/env python3
"""Regenerates /verif/MANIFEST.json from tools/claims.json (per-property texts) and validates it."""
import json, subprocess, sys, os
V = '/verif'
props = [json.loads(l) for l in open(f'{V}/properties.jsonl')]
claims = json.load(open(f'{V}/tools/claims.json'))
hooks = subprocess.run(['git', '-C', '/repo', 'log', '--format=%H %s'], capture_output=True, text=True).stdout.strip().split('\n')
hook_commits = [l.split()[0] for l in hooks if ' verif:' in l or l.split(' ', 1)[1].startswith('verif:')]
m = {
    "version": 1,
    "setup_cmd": "cd /verif/engine && GOFLAGS=-mod=vendor GOPROXY=off GOSUMDB=off GOTOOLCHAIN=local go build -o /verif/bin/govc ./cmd/govc",
    "hooks": {
        "guard": "verif",
        "enable": "contracts are comment-only files /repo/**/zz_verif_contracts.go behind //go:build verif; govc loads the tree with -tags=verif",
        "baseline_off_cmd": "cd /repo && GOFLAGS=-mod=mod GOPROXY=off GOSUMDB=off go test -json -vet=off -count=1 -timeout 25m ./...",
        "source_commits": hook_commits,
        "add_only": True,
    },
    "engines": [{
        "name": "govc",
        "path": "/verif/engine",
        "serves_properties": sorted(claims['checks'].keys()),
        "kind_free_text": "self-written verification-condition generator for Go: symbolic execution of go/ssa (naive form) of the real functions against contracts kept as //@ comments; obligations discharged by z3 4.8.12, z3-new 5.1.0, cvc5 1.0.3",
    }],
    "checks": [],
    "notes": claims.get('notes', ''),
    "not_applicable": [],
}
for p in props:
    pid = p['id']
    if pid in claims['checks']:
        c = claims['checks'][pid]
        m['checks'].append({
            "property_id": pid,
            "quick_cmd": f"/verif/bin/govc check --property {pid} --tier quick",
            "thorough_cmd": f"/verif/bin/govc check --property {pid} --tier thorough",
            "evidence_file": f"/verif/evidence/{pid}.json",
            "replay_cmd_template": "/verif/bin/govc replay {path}",
            "engine": "govc",
            "level_claimed": {"category": "proof", "text": c['text'], "design_ref": c.get('design_ref', 'DESIGN.md §6 ' + pid)},
            "level_note": c['note'],
            "technique": c.get('technique', 'contract-based deductive verification: weakest-precondition style VCs over go/ssa of the real functions, discharged by SMT (z3/cvc5)'),
        })
    else:
        m['not_applicable'].append({"property_id": pid, "reason": claims['not_applicable'].get(pid, 'check not built yet (see DESIGN.md for the plan)')})
json.dump(m, open(f'{V}/MANIFEST.json', 'w'), indent=1)
try:
    import jsonschema
    jsonschema.validate(m, json.load(open('/root/.vp/MANIFEST.schema.json')))
    print('MANIFEST.json valid;', len(m['checks']), 'checks,', len(m['not_applicable']), 'not applicable')
except ImportError:
    print('jsonschema not available in this python; run with python3-vt')
