#!/bin/bash
# Must-fail corpus: applies every seeded change (seeded/<id>/patch.diff) to a scratch worktree of
# /repo (never to /repo itself), runs the check of the seed's property on it and reports whether
# the check raised a violation. Usage: selftest/seeds.sh [id ...]   (default: all seeds)
# Evidence files are rewritten by these runs: run tools/runall.sh afterwards.
cd /verif
ids="$@"; [ -z "$ids" ] && ids=$(ls seeded | grep -E '^C[0-9]+-')
run_one() {
  id=$1; prop=${id%%-*}
  wt=/var/tmp/seedrun-$id
  git -C /repo worktree remove --force $wt >/dev/null 2>&1; rm -rf $wt
  git -C /repo worktree add --detach $wt HEAD >/dev/null 2>&1 || { echo "$id ERROR worktree"; return; }
  if ! git -C $wt apply /verif/seeded/$id/patch.diff 2>/dev/null; then echo "$id ERROR patch does not apply"; git -C /repo worktree remove --force $wt; return; fi
  out=$(/verif/bin/govc check --repo $wt --property $prop --evidence-dir /var/tmp/seed-evidence 2>&1); rc=$?
  n=$(echo "$out" | grep -c '^VIOLATION')
  exp=$(python3 -c "import json;print(json.load(open('/verif/seeded/$id/meta.json')).get('detected'))" 2>/dev/null)
  if [ $rc -eq 1 ] && [ $n -gt 0 ]; then echo "$id DETECTED ($n violation lines; meta says detected=$exp)"; 
  elif [ $rc -eq 0 ]; then echo "$id MISSED (meta says detected=$exp)"; else echo "$id BROKEN rc=$rc: $(echo "$out" | grep BROKEN | head -2)"; fi
  git -C /repo worktree remove --force $wt >/dev/null 2>&1; rm -rf $wt
}
export -f run_one
echo $ids | tr ' ' '\n' | xargs -P 4 -I{} bash -c 'run_one {}' | sort
