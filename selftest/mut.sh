#!/bin/bash
# usage: mut.sh <property> <file-in-repo> <sed-expr> [more govc args]
# applies a sed mutation to /repo, runs the check, reverts. For engine development only.
prop=$1; file=$2; expr=$3; shift 3
cd /repo || exit 2
if ! git diff --quiet -- "*zz_verif_contracts.go"; then echo "UNCOMMITTED CONTRACT EDITS in /repo - commit them first"; exit 2; fi
cp "$file" /var/tmp/mut_backup.$$ 
sed -i "$expr" "$file"
if cmp -s "$file" /var/tmp/mut_backup.$$; then echo "MUTATION DID NOT APPLY"; fi
git diff --stat | tail -1
/verif/bin/govc check --property "$prop" --evidence-dir /var/tmp/seed-evidence "$@" | grep -E "VIOLATION|BROKEN|KNOWN|property=" 
cp /var/tmp/mut_backup.$$ "$file"; rm -f /var/tmp/mut_backup.$$
git -C /repo status --short | grep -v zz_verif | head
