#!/bin/bash
# Must-pass corpus: semantics-preserving edits (selftest/harmless/<prop>-<name>.diff written by hand,
# selftest/harmless2/<prop>-<name>.diff written by sub-agents that saw only the property texts). Each is
# applied to a scratch worktree; the property's check must still exit 0 (no alarm on code where the
# property holds). Usage: selftest/harmless.sh [diff ...]   (default: both directories)
cd /verif
files="$@"; [ -z "$files" ] && files=$(ls selftest/harmless/*.diff selftest/harmless2/*.diff)
run_one() {
  d=$1
  name=$(basename $d .diff); prop=${name%%-*}
  wt=/var/tmp/harmless-$name
  git -C /repo worktree remove --force $wt >/dev/null 2>&1; rm -rf $wt
  git -C /repo worktree add --detach $wt HEAD >/dev/null 2>&1 || { echo "$name ERROR worktree"; return; }
  if ! git -C $wt apply /verif/$d 2>/dev/null; then echo "$name ERROR patch does not apply"; git -C /repo worktree remove --force $wt; return; fi
  (cd $wt && GOFLAGS=-mod=mod GOPROXY=off GOSUMDB=off GOTOOLCHAIN=local go build ./... ) || echo "$name DOES NOT BUILD"
  /verif/bin/govc check --repo $wt --property $prop --evidence-dir /var/tmp/seed-evidence > /var/tmp/harmless_$name.log 2>&1; rc=$?
  if [ $rc -eq 0 ]; then echo "$name QUIET"; else echo "$name ALARM rc=$rc: $(grep -E 'VIOLATION|BROKEN' /var/tmp/harmless_$name.log | head -2 | cut -c1-260)"; fi
  git -C /repo worktree remove --force $wt >/dev/null 2>&1; rm -rf $wt
}
export -f run_one
echo $files | tr ' ' '\n' | xargs -P ${HARMLESS_JOBS:-3} -I{} bash -c 'run_one {}' | sort
