module pathlemmas

go 1.22
