package pathlemmas

// Bounded stand-in (NOT a proof) for the lemmas about path / path/filepath / strings that the C20
// check assumes (specs/c20.spec, L1-L5). The predicates are given their intended concrete meaning
// and every lemma is tested on ALL strings of length <= 5 over the alphabet {'a', '.', '/'}
// (364 strings; pairs where a lemma has two arguments: 132 496) plus all 2- and 3-element
// arrays of such components for the Join/Split lemmas. Bound: that alphabet and those lengths.

import (
	"fmt"
	"path"
	"path/filepath"
	"strings"
	"testing"
)

func all(maxLen int) []string {
	out := []string{""}
	frontier := []string{""}
	for l := 0; l < maxLen; l++ {
		var next []string
		for _, s := range frontier {
			for _, c := range []string{"a", ".", "/"} {
				next = append(next, s+c)
			}
		}
		out = append(out, next...)
		frontier = next
	}
	return out
}

func hasDotDot(s string) bool {
	for _, c := range strings.Split(s, "/") {
		if c == ".." {
			return true
		}
	}
	return false
}

func rooted(s string) bool  { return strings.HasPrefix(s, "/") }
func safeRel(s string) bool { return strings.HasPrefix(s, "/") && !hasDotDot(s) }
func relSafe(s string) bool { return !strings.HasPrefix(s, "/") && !hasDotDot(s) }
func compSafe(c string) bool {
	return c != ".." && !strings.Contains(c, "/")
}

// inside(p, d): p is lexically inside directory d (after cleaning both)
func inside(p, d string) bool {
	cp, cd := filepath.Clean(p), filepath.Clean(d)
	if cp == cd {
		return true
	}
	if cd == "/" {
		return strings.HasPrefix(cp, "/")
	}
	if cd == "." {
		return !strings.HasPrefix(cp, "/") && cp != ".." && !strings.HasPrefix(cp, "../")
	}
	return strings.HasPrefix(cp, cd+"/")
}

func TestPathLemmas(t *testing.T) {
	strs := all(5)
	n := 0
	for _, x := range strs {
		// L1
		if !rooted("/" + x) {
			t.Fatalf("L1 fails for %q", x)
		}
		// L2 (path.Clean and filepath.Clean)
		if rooted(x) {
			if !safeRel(path.Clean(x)) || !safeRel(filepath.Clean(x)) {
				t.Fatalf("L2 fails for %q: %q %q", x, path.Clean(x), filepath.Clean(x))
			}
		}
		if safeRel(x) {
			// L4a
			if !safeRel(x + "/") {
				t.Fatalf("L4a fails for %q", x)
			}
			// L4b
			if i := strings.LastIndex(x, "/"); i >= 0 && !safeRel(x[i:]) {
				t.Fatalf("L4b fails for %q", x)
			}
			// L5a
			parts := strings.Split(x, "/")
			if len(parts) < 1 {
				t.Fatalf("L5a len fails for %q", x)
			}
			for _, p := range parts {
				if !compSafe(p) {
					t.Fatalf("L5a fails for %q: component %q", x, p)
				}
			}
		}
		n++
	}
	// L3: Join(d, e) with e safeRel or relSafe lies inside d
	for _, d := range strs {
		for _, e := range strs {
			if safeRel(e) || relSafe(e) {
				if r := filepath.Join(d, e); !inside(r, d) && d != "" {
					t.Fatalf("L3 fails for dir %q, elem %q: %q", d, e, r)
				}
			}
			// L6: a non-empty first element gives a non-empty result
			if d != "" && filepath.Join(d, e) == "" {
				t.Fatalf("L6 fails for %q, %q", d, e)
			}
			n++
		}
	}
	// L5b: Join of safe components is relSafe
	comps := []string{}
	for _, s := range all(3) {
		if compSafe(s) {
			comps = append(comps, s)
		}
	}
	for _, a := range comps {
		for _, b := range comps {
			if r := filepath.Join(a, b); !relSafe(r) {
				t.Fatalf("L5b fails for %q, %q: %q", a, b, r)
			}
			for _, c := range comps {
				if r := filepath.Join(a, b, c); !relSafe(r) {
					t.Fatalf("L5b fails for %q, %q, %q: %q", a, b, c, r)
				}
				n++
			}
		}
	}
	// types/ref axiom contains-library-prefix: "library/"+b contains "/"
	for _, b := range strs {
		if !strings.Contains("library/"+b, "/") {
			t.Fatalf("contains-library-prefix fails for %q", b)
		}
		n++
	}
	// scheme/ocidir axioms no-colon-without-index / no-colon-behind-the-last-one (C06 TagList):
	// all strings of length <= 5 over {a : /}
	colon := []string{""}
	front := []string{""}
	for l := 0; l < 5; l++ {
		var next []string
		for _, s := range front {
			for _, c := range []string{"a", ":", "/"} {
				next = append(next, s+c)
			}
		}
		colon = append(colon, next...)
		front = next
	}
	endsInTag := func(s, t string) bool { return s == t || strings.HasSuffix(s, ":"+t) }
	for _, s := range colon {
		i := strings.LastIndex(s, ":")
		if i < 0 {
			if strings.Contains(s, ":") || !endsInTag(s, s) {
				t.Fatalf("no-colon-without-index fails for %q", s)
			}
		} else {
			if strings.Contains(s[i+1:], ":") || !endsInTag(s, s[i+1:]) {
				t.Fatalf("no-colon-behind-the-last-one fails for %q", s)
			}
		}
		n++
	}
	fmt.Printf("BOUNDED instances=%d\n", n)
}
