package ref

// BOUNDED stand-in (never counted as proved) for the part of C15 that the contracts cannot reach:
// the regular-expression grammar itself (the C15 proofs treat the compiled expressions as
// uninterpreted). Injected into the real package with `go test -overlay`; it calls the real New.
//
// For every string of length <= 7 over the alphabet {a 5 - . _ : /} that New accepts as a registry
// reference: the registry component, when one was given, is a host name as the documented grammar
// defines it - labels of letters and digits with inner hyphens, separated by single dots, an
// optional trailing dot, an optional :port of digits, and at least one dot or a port - decided
// here by a hand-written recogniser, not by a regular expression; and the printed form parses back
// to the same components. In addition the tag-length bound of the grammar (128 characters) is
// exercised at 1, 127, 128, 129, 130, 200, 256 and 1000 characters for five reference forms, with and
// without a digest (the enumeration above cannot reach it).

import (
	"fmt"
	"strings"
	"testing"
)

func verifAlnum(c byte) bool {
	return (c >= 'a' && c <= 'z') || (c >= 'A' && c <= 'Z') || (c >= '0' && c <= '9')
}

func verifHostPart(p string) bool {
	if p == "" || !verifAlnum(p[0]) || !verifAlnum(p[len(p)-1]) {
		return false
	}
	for i := 0; i < len(p); i++ {
		if !verifAlnum(p[i]) && p[i] != '-' {
			return false
		}
	}
	return true
}

func verifRegistry(s string) bool {
	host, hasPort := s, false
	if i := strings.LastIndex(s, ":"); i >= 0 {
		port := s[i+1:]
		if port == "" {
			return false
		}
		for j := 0; j < len(port); j++ {
			if port[j] < '0' || port[j] > '9' {
				return false
			}
		}
		host, hasPort = s[:i], true
	}
	trailingDot := strings.HasSuffix(host, ".")
	if trailingDot {
		host = host[:len(host)-1]
	}
	parts := strings.Split(host, ".")
	for _, p := range parts {
		if !verifHostPart(p) {
			return false
		}
	}
	return hasPort || len(parts) >= 2 || trailingDot
}

func TestVerifBoundedRefGrammar(t *testing.T) {
	alpha := "a5-._:/"
	n := 0
	cur := []string{""}
	for l := 1; l <= 7; l++ {
		next := make([]string, 0, len(cur)*len(alpha))
		for _, p := range cur {
			for i := 0; i < len(alpha); i++ {
				next = append(next, p+alpha[i:i+1])
			}
		}
		for _, s := range next {
			r, err := New(s)
			n++
			if err != nil {
				continue
			}
			if r.Scheme != "reg" {
				continue
			}
			if r.Registry != dockerRegistry && !verifRegistry(r.Registry) {
				t.Fatalf("New(%q) accepted the registry %q, which is not a host name of the grammar", s, r.Registry)
			}
			if strings.Contains(r.Repository, "//") || strings.HasPrefix(r.Repository, "/") || strings.HasSuffix(r.Repository, "/") || r.Repository == "" {
				t.Fatalf("New(%q) accepted the repository %q with an empty component", s, r.Repository)
			}
			r2, err := New(r.CommonName())
			if err != nil {
				t.Fatalf("New(%q) prints as %q, which New rejects: %v", s, r.CommonName(), err)
			}
			if r2.Registry != r.Registry || r2.Repository != r.Repository || r2.Tag != r.Tag || r2.Digest != r.Digest {
				t.Fatalf("New(%q) prints as %q, which parses to other components: %+v vs %+v", s, r.CommonName(), r, r2)
			}
		}
		cur = next
	}
	// the one counted repetition of the grammar: a tag has at most 128 characters, in every form
	// a reference can take (registry form and OCI layout form, with and without a digest)
	dig := "@sha256:" + strings.Repeat("a", 64)
	for _, prefix := range []string{"example.com/repo:", "repo:", "localhost:5000/a/b:", "ocidir://path/to/layout:", "ocidir://x:"} {
		for _, suffix := range []string{"", dig} {
			for _, l := range []int{1, 127, 128, 129, 130, 200, 256, 1000} {
				tag := strings.Repeat("x", l)
				r, err := New(prefix + tag + suffix)
				n++
				if l <= 128 && (err != nil || r.Tag != tag) {
					t.Fatalf("New(%s<%d x>%s): a tag of %d characters is within the grammar, got tag %q, err %v", prefix, l, suffix, l, r.Tag, err)
				}
				if l > 128 && err == nil {
					t.Fatalf("New(%s<%d x>%s) accepted a tag of %d characters (the grammar allows 128)", prefix, l, suffix, l)
				}
			}
		}
	}
	fmt.Printf("BOUNDED instances=%d\n", n)
}
