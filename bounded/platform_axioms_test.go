package platform

// BOUNDED stand-in (never counted as proved) for the axioms that /repo/types/platform/
// zz_verif_contracts.go assumes about four small string helpers which the C16 proofs treat as
// uninterpreted functions ($vv, $semcmp, $osver, $sse). Injected into the real package with
// `go test -overlay`; it calls the real, unexported functions.
//
// Bound: every string of length <= 4 over the alphabet {0 1 2 . x v}; string slices of length <= 2
// over {"", "a", "b"}.

import (
	"fmt"
	"testing"
)

func verifBoundedStrings(alpha string, max int) []string {
	out := []string{""}
	prev := []string{""}
	for l := 1; l <= max; l++ {
		var next []string
		for _, p := range prev {
			for _, c := range alpha {
				next = append(next, p+string(c))
			}
		}
		out = append(out, next...)
		prev = next
	}
	return out
}

func TestVerifBoundedPlatformAxioms(t *testing.T) {
	n := 0
	// vv-empty, osver-empty
	if variantVer("") != 0 {
		t.Fatalf("vv-empty fails")
	}
	if osVerSemver("") != "" {
		t.Fatalf("osver-empty fails")
	}
	n += 2
	strs := verifBoundedStrings("012.xv", 4)
	for _, a := range strs {
		// osver-nonempty
		if osVerSemver(a) == "" && a != "" {
			t.Fatalf("osver-nonempty fails for %q", a)
		}
		// semcmp-refl
		if semverCmp(a, a) != 0 {
			t.Fatalf("semcmp-refl fails for %q", a)
		}
		// determinism (the functions are modelled as functions of their arguments)
		if variantVer(a) != variantVer(string([]byte(a))) || osVerSemver(a) != osVerSemver(string([]byte(a))) {
			t.Fatalf("not a function of the argument: %q", a)
		}
		n += 3
	}
	for _, a := range strs {
		for _, b := range strs {
			// semcmp-antisym
			if semverCmp(a, b) < 0 && semverCmp(b, a) < 0 {
				t.Fatalf("semcmp-antisym fails for %q, %q", a, b)
			}
			n++
		}
	}
	// sse-refl, sse-sym, sse-trans
	var slices [][]string
	vals := []string{"", "a", "b"}
	slices = append(slices, nil, []string{})
	for _, x := range vals {
		slices = append(slices, []string{x})
		for _, y := range vals {
			slices = append(slices, []string{x, y})
		}
	}
	for _, a := range slices {
		if !strSliceEq(a, a) {
			t.Fatalf("sse-refl fails for %q", a)
		}
		n++
		for _, b := range slices {
			if strSliceEq(a, b) != strSliceEq(b, a) {
				t.Fatalf("sse-sym fails for %q, %q", a, b)
			}
			n++
			for _, c := range slices {
				if strSliceEq(a, b) && strSliceEq(b, c) && !strSliceEq(a, c) {
					t.Fatalf("sse-trans fails for %q, %q, %q", a, b, c)
				}
				n++
			}
		}
	}
	fmt.Printf("BOUNDED instances=%d\n", n)
}
