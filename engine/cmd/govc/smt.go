package main

import (
	"fmt"
	"go/constant"
	"go/types"
	"regexp"
	"sort"
	"strings"
)

// VC collects the SMT-LIB text generated for one verification unit (a function under contract,
// a call-site sweep of one function, or a lemma).
type VC struct {
	p         *Prog
	decls     []string
	asserts   []string
	n         int
	declared  map[string]bool
	declared2 map[string]string

	structSort map[string]string // typeKey -> sort name
	sortNames  map[string]bool
	strLits    map[string]string // literal -> symbol
	strLitList []string
	fieldIDs   map[string]int
	typeTags   map[string]int
	tagTypes   []types.Type
	globIDs    map[string]int
	memSorts   map[string]string // SMT memory symbol base -> sort
	ufuns      map[string]bool

	obls       []*Obl
	qdefs      []qdef
	sliceCache []sliceItem

	assumptions map[string]bool // abstraction notes collected while generating
	bytes       int
}

// Obl is one proof obligation: reach ∧ ¬goal must be unsat.
type Obl struct {
	Name     string
	Kind     string
	Reach    string
	Goal     string
	Pos      string
	Text     string // source text of the clause
	NoAxioms bool
	NoQuant  bool
	MustSat  bool // vacuity probe: reach must be satisfiable (Goal ignored)
	Fn       string
	Extra    []string // extra assertions local to this obligation

	Result  string
	Solver  string
	Time    float64
	Model   string
	Output  string
	SMTSize int
	Brittle []string // thorough tier: seeds under which the deciding query was not re-proved in time
}

func newVC(p *Prog) *VC {
	vc := &VC{p: p, declared: map[string]bool{}, structSort: map[string]string{}, sortNames: map[string]bool{},
		strLits: map[string]string{}, fieldIDs: map[string]int{}, typeTags: map[string]int{}, globIDs: map[string]int{},
		memSorts: map[string]string{}, ufuns: map[string]bool{}, assumptions: map[string]bool{}}
	return vc
}

const prelude = `(set-option :produce-models true)
(set-logic ALL)
(declare-sort Str 0)
(declare-sort Float 0)
(declare-sort Any 0)
(declare-sort Fn 0)
(declare-datatypes ((Ptr 0)) (((pnull) (pobj (pobj_id Int)) (pfld (pfld_base Ptr) (pfld_k Int)) (pelem (pelem_arr Int) (pelem_i Int)) (pglob (pglob_k Int)))))
(declare-datatypes ((Slice 0)) (((mk_slice (sl_arr Int) (sl_off Int) (sl_len Int) (sl_cap Int)))))
(declare-datatypes ((Pay 0)) (((pay_ptr (pay_p Ptr)) (pay_int (pay_i Int)) (pay_str (pay_s Str)) (pay_bool (pay_b Bool)) (pay_opq (pay_o Int)))))
(declare-datatypes ((Iface 0)) (((inil) (ibox (itag Int) (ipay Pay)))))
(declare-fun strlen (Str) Int)
(declare-fun str_cat (Str Str) Str)
(declare-const str_empty Str)
(declare-const fn_nil Fn)
(declare-const float_zero Float)
(declare-const any_zero Any)
(declare-fun arrid (Ptr) Int)
(declare-fun str_lt (Str Str) Bool)
(declare-fun str_at (Str Int) Int)
(declare-fun str_sub (Str Int Int) Str)
(declare-fun errors_is (Iface Iface) Bool)
(assert (= (strlen str_empty) 0))
(define-fun oldptr ((p Ptr)) Bool (not (and ((_ is pobj) p) (< (pobj_id p) 0))))
(define-fun imin ((a Int) (b Int)) Int (ite (<= a b) a b))
(define-fun imax ((a Int) (b Int)) Int (ite (>= a b) a b))
`

func (vc *VC) fresh(prefix string) string {
	vc.n++
	return fmt.Sprintf("%s_%d", sanitize(prefix), vc.n)
}

func sanitize(s string) string {
	var b strings.Builder
	for _, r := range s {
		if (r >= 'a' && r <= 'z') || (r >= 'A' && r <= 'Z') || (r >= '0' && r <= '9') || r == '_' {
			b.WriteRune(r)
		} else {
			b.WriteByte('_')
		}
	}
	out := b.String()
	if len(out) > 60 {
		out = out[len(out)-60:]
	}
	if out == "" || (out[0] >= '0' && out[0] <= '9') {
		out = "x" + out
	}
	return out
}

func (vc *VC) decl(s string) {
	vc.decls = append(vc.decls, s)
	vc.bytes += len(s)
}

func (vc *VC) assert(s string) {
	vc.decls = append(vc.decls, "(assert "+s+")")
	vc.bytes += len(s) + 10
}

// freshConst declares a fresh constant of the given sort.
func (vc *VC) freshConst(prefix, sort string) string {
	n := vc.fresh(prefix)
	vc.decl(fmt.Sprintf("(declare-const %s %s)", n, sort))
	return n
}

// define introduces a named constant equal to the term (keeps terms small).
func (vc *VC) define(prefix, sort, term string) string {
	if len(term) < 40 && !strings.ContainsAny(term, " ") {
		return term
	}
	n := vc.fresh(prefix)
	vc.decl(fmt.Sprintf("(declare-const %s %s)", n, sort))
	vc.assert(fmt.Sprintf("(= %s %s)", n, term))
	return n
}

func (vc *VC) note(a string) { vc.assumptions[a] = true }

// ---------- sorts ----------

func (vc *VC) sortOf(t types.Type) string {
	switch u := t.(type) {
	case *types.Named:
		if _, ok := u.Underlying().(*types.Struct); ok {
			return vc.structSortOf(t)
		}
		return vc.sortOf(u.Underlying())
	case *types.Alias:
		return vc.sortOf(types.Unalias(t))
	case *types.Basic:
		switch {
		case u.Info()&types.IsBoolean != 0:
			return "Bool"
		case u.Info()&types.IsInteger != 0:
			return "Int"
		case u.Info()&types.IsString != 0:
			return "Str"
		case u.Info()&(types.IsFloat|types.IsComplex) != 0:
			return "Float"
		case u.Kind() == types.UnsafePointer:
			return "Ptr"
		case u.Kind() == types.UntypedNil:
			return "Ptr"
		}
		return "Any"
	case *types.Pointer:
		return "Ptr"
	case *types.Slice:
		return "Slice"
	case *types.Map, *types.Chan:
		return "Int"
	case *types.Signature:
		return "Fn"
	case *types.Interface:
		return "Iface"
	case *types.Struct:
		return vc.structSortOf(t)
	case *types.Array:
		return "(Array Int " + vc.sortOf(u.Elem()) + ")"
	case *types.TypeParam:
		return "Any"
	case *types.Tuple:
		return "Any"
	}
	return "Any"
}

func (vc *VC) structSortOf(t types.Type) string {
	key := typeKey(t)
	if s, ok := vc.structSort[key]; ok {
		return s
	}
	st := t.Underlying().(*types.Struct)
	base := "S_" + sanitize(key)
	name := base
	for i := 2; vc.sortNames[name]; i++ {
		name = fmt.Sprintf("%s_%d", base, i)
	}
	vc.sortNames[name] = true
	vc.structSort[key] = name
	// declare field sorts first
	var fields []string
	for i := 0; i < st.NumFields(); i++ {
		fs := vc.sortOf(st.Field(i).Type())
		fields = append(fields, fmt.Sprintf("(%s %s)", vc.fieldSel(name, st, i), fs))
	}
	if len(fields) == 0 {
		vc.decl(fmt.Sprintf("(declare-datatypes ((%s 0)) (((mk_%s))))", name, name))
	} else {
		vc.decl(fmt.Sprintf("(declare-datatypes ((%s 0)) (((mk_%s %s))))", name, name, strings.Join(fields, " ")))
	}
	return name
}

func (vc *VC) fieldSel(sortName string, st *types.Struct, i int) string {
	return fmt.Sprintf("%s_%d_%s", sortName, i, sanitize(st.Field(i).Name()))
}

// fieldOf builds the projection term for field i of a struct value term.
func (vc *VC) fieldOf(structType types.Type, i int, v string) string {
	s := vc.structSortOf(structType)
	st := structType.Underlying().(*types.Struct)
	// projection of a constructor application: take the argument directly
	if strings.HasPrefix(v, "(mk_"+s+" ") {
		if args := splitSexpArgs(v[len("(mk_"+s+" ") : len(v)-1]); len(args) == st.NumFields() {
			return args[i]
		}
	}
	return fmt.Sprintf("(%s %s)", vc.fieldSel(s, st, i), v)
}

// splitSexpArgs splits "a (b c) d" into its top-level s-expressions.
func splitSexpArgs(s string) []string {
	var out []string
	d := 0
	start := -1
	for i := 0; i < len(s); i++ {
		c := s[i]
		switch {
		case c == '(':
			if d == 0 && start < 0 {
				start = i
			}
			d++
		case c == ')':
			d--
			if d == 0 {
				out = append(out, s[start:i+1])
				start = -1
			}
		case c == ' ':
			if d == 0 && start >= 0 {
				out = append(out, s[start:i])
				start = -1
			}
		default:
			if d == 0 && start < 0 {
				start = i
			}
		}
	}
	if start >= 0 {
		out = append(out, s[start:])
	}
	return out
}

// structEq expands equality of two struct values into the conjunction of their leaf fields.
func (vc *VC) structEq(t types.Type, a, b string) string {
	st, ok := t.Underlying().(*types.Struct)
	if !ok || a == b {
		return eq(a, b)
	}
	s := vc.structSortOf(t)
	if !strings.HasPrefix(a, "(mk_"+s+" ") && !strings.HasPrefix(b, "(mk_"+s+" ") {
		return eq(a, b)
	}
	var parts []string
	for i := 0; i < st.NumFields(); i++ {
		parts = append(parts, vc.structEq(st.Field(i).Type(), vc.fieldOf(t, i, a), vc.fieldOf(t, i, b)))
	}
	return and(parts...)
}

// withField builds a struct value equal to v with field i replaced.
func (vc *VC) withField(structType types.Type, i int, v, nv string) string {
	s := vc.structSortOf(structType)
	st := structType.Underlying().(*types.Struct)
	parts := make([]string, st.NumFields())
	for j := 0; j < st.NumFields(); j++ {
		if j == i {
			parts[j] = nv
		} else {
			parts[j] = fmt.Sprintf("(%s %s)", vc.fieldSel(s, st, j), v)
		}
	}
	return fmt.Sprintf("(mk_%s %s)", s, strings.Join(parts, " "))
}

func (vc *VC) mkStruct(structType types.Type, parts []string) string {
	s := vc.structSortOf(structType)
	if len(parts) == 0 {
		return "mk_" + s
	}
	return fmt.Sprintf("(mk_%s %s)", s, strings.Join(parts, " "))
}

func (vc *VC) zero(t types.Type) string {
	switch u := t.Underlying().(type) {
	case *types.Struct:
		parts := make([]string, u.NumFields())
		for i := range parts {
			parts[i] = vc.zero(u.Field(i).Type())
		}
		return vc.mkStruct(t, parts)
	case *types.Array:
		return fmt.Sprintf("((as const %s) %s)", vc.sortOf(t), vc.zero(u.Elem()))
	}
	switch vc.sortOf(t) {
	case "Bool":
		return "false"
	case "Int":
		return "0"
	case "Str":
		return "str_empty"
	case "Float":
		return "float_zero"
	case "Ptr":
		return "pnull"
	case "Slice":
		return "(mk_slice 0 0 0 0)"
	case "Fn":
		return "fn_nil"
	case "Iface":
		return "inil"
	}
	return "any_zero"
}

func (vc *VC) strLit(s string) string {
	if s == "" {
		return "str_empty"
	}
	if n, ok := vc.strLits[s]; ok {
		return n
	}
	n := fmt.Sprintf("strlit_%d_%s", len(vc.strLits), sanitize(trunc(s, 24)))
	vc.strLits[s] = n
	vc.strLitList = append(vc.strLitList, s)
	vc.decl(fmt.Sprintf("(declare-const %s Str)", n))
	vc.assert(fmt.Sprintf("(= (strlen %s) %d)", n, len(s)))
	return n
}

func trunc(s string, n int) string {
	if len(s) > n {
		return s[:n]
	}
	return s
}

func intLit(v int64) string {
	if v < 0 {
		return fmt.Sprintf("(- %d)", -v)
	}
	return fmt.Sprintf("%d", v)
}

func (vc *VC) constTerm(v constant.Value, t types.Type) string {
	if v == nil {
		return vc.zero(t)
	}
	switch vc.sortOf(t) {
	case "Bool":
		if constant.BoolVal(v) {
			return "true"
		}
		return "false"
	case "Int":
		if v.Kind() == constant.Int {
			s := v.ExactString()
			if strings.HasPrefix(s, "-") {
				return "(- " + s[1:] + ")"
			}
			return s
		}
		if i, ok := constant.Int64Val(constant.ToInt(v)); ok {
			return intLit(i)
		}
	case "Str":
		return vc.strLit(constant.StringVal(v))
	case "Float":
		key := "floatlit_" + sanitize(v.ExactString())
		if !vc.declared[key] {
			vc.declared[key] = true
			vc.decl(fmt.Sprintf("(declare-const %s Float)", key))
		}
		return key
	case "Iface":
		return "inil"
	}
	return vc.freshConst("const", vc.sortOf(t))
}

func (vc *VC) fieldID(structType types.Type, i int) int {
	k := fieldKey(structType, i)
	if id, ok := vc.fieldIDs[k]; ok {
		return id
	}
	id := len(vc.fieldIDs) + 1
	vc.fieldIDs[k] = id
	return id
}

func (vc *VC) typeTag(t types.Type) int {
	k := typeKey(t)
	if id, ok := vc.typeTags[k]; ok {
		return id
	}
	id := len(vc.typeTags) + 1
	vc.typeTags[k] = id
	vc.tagTypes = append(vc.tagTypes, t)
	return id
}

func (vc *VC) globID(name string) int {
	if id, ok := vc.globIDs[name]; ok {
		return id
	}
	id := len(vc.globIDs) + 1
	vc.globIDs[name] = id
	return id
}

// ufun declares an uninterpreted function once.
func (vc *VC) ufun(name string, args []string, ret string) string {
	if !vc.ufuns[name] {
		vc.ufuns[name] = true
		vc.decl(fmt.Sprintf("(declare-fun %s (%s) %s)", name, strings.Join(args, " "), ret))
	}
	return name
}

// closing assertions emitted once at script build time
func (vc *VC) closing(rel map[string]bool) string {
	var b strings.Builder
	if len(vc.strLitList) > 0 {
		names := []string{"str_empty"}
		var lits []string
		for _, l := range vc.strLitList {
			if rel == nil || rel[vc.strLits[l]] {
				lits = append(lits, l)
			}
		}
		sort.Strings(lits)
		for _, l := range lits {
			names = append(names, vc.strLits[l])
		}
		if len(names) > 1 {
			fmt.Fprintf(&b, "(assert (distinct %s))\n", strings.Join(names, " "))
		}
		// concat folding on literal pairs whose concatenation is itself a literal in scope
		for _, a := range lits {
			for _, c := range lits {
				if r, ok := vc.strLits[a+c]; ok && (rel == nil || rel[r]) {
					fmt.Fprintf(&b, "(assert (= (str_cat %s %s) %s))\n", vc.strLits[a], vc.strLits[c], r)
				}
			}
		}
	}
	return b.String()
}

const qMark = ";Q;"

// quantified wraps a quantified assumption in a named atom whose definition can be left out.
func (vc *VC) quantified(formula string) string {
	n := vc.fresh("qa")
	vc.decl(fmt.Sprintf("(declare-const %s Bool)", n))
	vc.decl(qMark + fmt.Sprintf("(assert (= %s %s))", n, formula))
	if v, body, ok := splitForallInt(formula); ok {
		vc.qdefs = append(vc.qdefs, qdef{atom: n, v: v, body: body})
	}
	return n
}

type qdef struct{ atom, v, body string }

// splitForallInt recognises "(forall ((v Int)) body)" (optionally "(! body :pattern ...)").
func splitForallInt(f string) (v, body string, ok bool) {
	const pre = "(forall (("
	if !strings.HasPrefix(f, pre) || !strings.HasSuffix(f, ")") {
		return
	}
	rest := f[len(pre):]
	i := strings.Index(rest, " Int)) ")
	if i < 0 || strings.ContainsAny(rest[:i], "() ") {
		return
	}
	v = rest[:i]
	body = rest[i+len(" Int)) ") : len(rest)-1]
	if strings.HasPrefix(body, "(! ") {
		if j := strings.LastIndex(body, " :pattern "); j > 0 {
			body = body[3:j]
		}
	}
	return v, body, true
}

var symRE = regexp.MustCompile(`[A-Za-z_][A-Za-z0-9_!.]*`)

// substSym replaces the symbol v by term t in an s-expression text (symbols are whole tokens).
func substSym(body, v, t string) string {
	return symRE.ReplaceAllStringFunc(body, func(m string) string {
		if m == v {
			return t
		}
		return m
	})
}

// skolemize: for a goal "(forall ((v Int)) G)", returns G[sk/v] plus instances of every assumed
// integer-quantified formula at sk, sk+1 and sk-1 (the instances array-shifting proofs need and
// that E-matching does not find through address arithmetic). Instances of assumed formulas are
// implied by them, so adding them is sound.
func (vc *VC) skolemize(goal string) (string, []string) {
	v, body, ok := splitForallInt(goal)
	if !ok {
		return goal, nil
	}
	sk := vc.freshConst("sk", "Int")
	g := substSym(body, v, sk)
	var extra []string
	for _, q := range vc.qdefs {
		for _, t := range []string{sk, "(+ " + sk + " 1)", "(- " + sk + " 1)"} {
			extra = append(extra, fmt.Sprintf("(=> %s %s)", q.atom, substSym(q.body, q.v, t)))
		}
	}
	return g, extra
}

const preludeAxioms = `(assert (forall ((s Str)) (! (>= (strlen s) 0) :pattern ((strlen s)))))
(assert (forall ((a Str) (b Str)) (! (= (strlen (str_cat a b)) (+ (strlen a) (strlen b))) :pattern ((str_cat a b)))))
(assert (forall ((s Str)) (! (=> (= (strlen s) 0) (= s str_empty)) :pattern ((strlen s)))))
(assert (forall ((a Str)) (! (= (str_cat a str_empty) a) :pattern ((str_cat a str_empty)))))
(assert (forall ((a Str)) (! (= (str_cat str_empty a) a) :pattern ((str_cat str_empty a)))))
(assert (forall ((a Str) (b Str)) (! (=> (str_lt a b) (not (str_lt b a))) :pattern ((str_lt a b)))))
(assert (forall ((a Str) (b Str)) (! (or (str_lt a b) (str_lt b a) (= a b)) :pattern ((str_lt a b)))))
(assert (forall ((a Str) (b Str) (c Str)) (! (=> (and (str_lt a b) (str_lt b c)) (str_lt a c)) :pattern ((str_lt a b) (str_lt b c)))))
(assert (forall ((e Iface)) (! (errors_is e e) :pattern ((errors_is e e)))))
(assert (forall ((t Iface)) (! (=> (not (= t inil)) (not (errors_is inil t))) :pattern ((errors_is inil t)))))
`

// ---- cone-of-influence slicing ----
// Every obligation only needs the declarations and assertions its own symbols depend on. Lines
// are classified as: structural (sorts, datatypes, functions: always kept), constant declarations
// (kept when the constant is relevant), definitions "(assert (= c e))" directly following the
// declaration of c (kept when c is relevant; the symbols of e become relevant), and other
// assertions (kept when they mention a relevant constant; all their symbols become relevant).
// Dropping assertions can only make an obligation harder to prove, never easier.
type sliceItem struct {
	text string
	kind int    // 0 structural, 1 const decl, 2 definition, 3 other assert
	sym  string // declared / defined constant
	syms []string
	lits []string // string-literal constants of a user axiom (not used to pull the axiom in)
	q    bool
}

var tokRE = regexp.MustCompile(`[A-Za-z_][A-Za-z0-9_!.]*`)

func (vc *VC) sliceIndex() []sliceItem {
	if vc.sliceCache != nil && len(vc.sliceCache) == len(vc.decls) {
		return vc.sliceCache
	}
	items := make([]sliceItem, len(vc.decls))
	consts := map[string]bool{}
	prevDecl := ""
	for i, d := range vc.decls {
		it := sliceItem{text: d}
		t := d
		if strings.HasPrefix(t, qMark) {
			it.q = true
			t = t[len(qMark):]
		}
		switch {
		case strings.HasPrefix(t, "(declare-const "):
			f := strings.Fields(t[len("(declare-const "):])
			it.kind, it.sym = 1, f[0]
			consts[it.sym] = true
			prevDecl = it.sym
		case strings.HasPrefix(t, "(assert "):
			it.kind = 3
			if prevDecl != "" && strings.HasPrefix(t, "(assert (= "+prevDecl+" ") {
				it.kind, it.sym = 2, prevDecl
			}
			isAxiom := it.kind == 3 && strings.Contains(t, "(forall") && ufTokRE.MatchString(t)
			for _, m := range tokRE.FindAllString(t, -1) {
				if consts[m] && m != it.sym {
					if isAxiom && (strings.HasPrefix(m, "strlit_") || m == "str_empty") {
						// a user axiom mentioning a literal is not relevant just because the literal is
						it.lits = append(it.lits, m)
						continue
					}
					it.syms = append(it.syms, m)
				}
			}
			prevDecl = ""
		default:
			prevDecl = ""
		}
		items[i] = it
	}
	vc.sliceCache = items
	return items
}

func (vc *VC) sliceFor(o *Obl) ([]bool, map[string]bool) {
	items := vc.sliceIndex()
	keep := make([]bool, len(items))
	rel := map[string]bool{}
	var work []string
	add := func(s string) {
		if !rel[s] {
			rel[s] = true
			work = append(work, s)
		}
	}
	for _, m := range tokRE.FindAllString(o.Reach+" "+o.Goal+" "+strings.Join(o.Extra, " "), -1) {
		add(m)
	}
	defOf := map[string]int{}
	declOf := map[string]int{}
	mention := map[string][]int{}
	for i, it := range items {
		switch it.kind {
		case 0:
			keep[i] = true
		case 1:
			declOf[it.sym] = i
		case 2:
			defOf[it.sym] = i
		case 3:
			if len(it.syms) == 0 {
				keep[i] = true // facts about functions and literals only (axioms, pow2, array ids)
			}
			for _, s := range it.syms {
				mention[s] = append(mention[s], i)
			}
		}
	}
	drain := func() {
		for len(work) > 0 {
			s := work[len(work)-1]
			work = work[:len(work)-1]
			if i, ok := declOf[s]; ok {
				keep[i] = true
			}
			if i, ok := defOf[s]; ok && !keep[i] {
				keep[i] = true
				for _, t := range items[i].syms {
					add(t)
				}
			}
			for _, i := range mention[s] {
				if !keep[i] {
					keep[i] = true
					for _, t := range items[i].syms {
						add(t)
					}
				}
			}
		}
	}
	drain()
	// user axioms (quantified facts about uninterpreted functions) are kept only when one of their
	// functions occurs in what is kept otherwise - fixpoint over the axioms' own symbols. Leaving an
	// assumption out is always sound.
	var axioms []int
	for i, it := range items {
		if keep[i] && it.kind == 3 && len(it.syms) == 0 && strings.Contains(it.text, "(forall") && ufTokRE.MatchString(it.text) {
			axioms = append(axioms, i)
			keep[i] = false
		}
	}
	if len(axioms) > 0 {
		for changed := true; changed; {
			changed = false
			usedUF := map[string]bool{}
			note := func(t string) {
				for _, m := range ufTokRE.FindAllString(t, -1) {
					usedUF[m] = true
				}
			}
			note(o.Reach + " " + o.Goal + " " + strings.Join(o.Extra, " "))
			for i, it := range items {
				if keep[i] && !strings.HasPrefix(strings.TrimPrefix(it.text, qMark), "(declare-") {
					note(it.text)
				}
			}
			for _, i := range axioms {
				if keep[i] {
					continue
				}
				for _, m := range ufTokRE.FindAllString(items[i].text, -1) {
					if usedUF[m] {
						keep[i] = true
						changed = true
						for _, l := range items[i].lits {
							add(l)
						}
						drain()
						break
					}
				}
			}
		}
	}
	return keep, rel
}

var ufTokRE = regexp.MustCompile(`\buf_\w+`)

// script builds the SMT-LIB text for one obligation.
func (vc *VC) script(o *Obl) string {
	var b strings.Builder
	b.WriteString(prelude)
	if !o.MustSat && !o.NoAxioms {
		b.WriteString(preludeAxioms)
	} else if !o.MustSat && !o.NoQuant {
		b.WriteString("(assert (forall ((s Str)) (! (>= (strlen s) 0) :pattern ((strlen s)))))\n")
	}
	keep, rel := vc.sliceFor(o)
	for i, d := range vc.decls {
		if !keep[i] {
			continue
		}
		if strings.HasPrefix(d, qMark) {
			// definition of a quantified assumption: left out of vacuity probes and of the
			// quantifier-free variant (the atom stays free: fewer assumptions)
			if o.MustSat || o.NoQuant {
				continue
			}
			d = d[len(qMark):]
		}
		b.WriteString(d)
		b.WriteByte('\n')
	}
	b.WriteString(vc.closing(rel))
	for _, e := range o.Extra {
		b.WriteString("(assert " + e + ")\n")
	}
	fmt.Fprintf(&b, "(assert %s)\n", o.Reach)
	if !o.MustSat {
		fmt.Fprintf(&b, "(assert (not %s))\n", o.Goal)
	}
	b.WriteString("(check-sat)\n")
	return b.String()
}

func and(xs ...string) string {
	var ys []string
	for _, x := range xs {
		if x == "true" || x == "" {
			continue
		}
		if x == "false" {
			return "false"
		}
		ys = append(ys, x)
	}
	switch len(ys) {
	case 0:
		return "true"
	case 1:
		return ys[0]
	}
	return "(and " + strings.Join(ys, " ") + ")"
}

func or(xs ...string) string {
	var ys []string
	for _, x := range xs {
		if x == "false" || x == "" {
			continue
		}
		if x == "true" {
			return "true"
		}
		ys = append(ys, x)
	}
	switch len(ys) {
	case 0:
		return "false"
	case 1:
		return ys[0]
	}
	return "(or " + strings.Join(ys, " ") + ")"
}

func not(x string) string {
	switch x {
	case "true":
		return "false"
	case "false":
		return "true"
	}
	if strings.HasPrefix(x, "(not ") && strings.HasSuffix(x, ")") && balanced(x[5:len(x)-1]) {
		return x[5 : len(x)-1]
	}
	return "(not " + x + ")"
}

func balanced(s string) bool {
	d := 0
	for i, c := range s {
		if c == '(' {
			d++
		} else if c == ')' {
			d--
			if d < 0 {
				return false
			}
			if d == 0 && i != len(s)-1 {
				return false
			}
		} else if d == 0 && c == ' ' {
			return false
		}
	}
	return d == 0
}

func implies(a, b string) string {
	if a == "true" {
		return b
	}
	if a == "false" || b == "true" {
		return "true"
	}
	return "(=> " + a + " " + b + ")"
}

func ite(c, a, b string) string {
	if c == "true" || a == b {
		return a
	}
	if c == "false" {
		return b
	}
	return "(ite " + c + " " + a + " " + b + ")"
}

func eq(a, b string) string {
	if a == b {
		return "true"
	}
	return "(= " + a + " " + b + ")"
}
