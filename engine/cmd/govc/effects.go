package main

import (
	"go/token"
	"go/types"
	"sort"
	"strings"

	"golang.org/x/tools/go/ssa"
)

// Memory keys (strings) name the disjoint memory components of the model:
//   F|<struct type>|<field>   one map per struct field (Burstall)
//   C|<type>                  cells / slice elements of a non-struct type
//   M|<map type>              map contents (has/val/len)
//   G|<name>                  ghost state written by contract effects
//   X|chan                    channel operations (used only as an effect marker)

func fieldMemKey(structType types.Type, i int) string {
	st := structType.Underlying().(*types.Struct)
	return "F|" + typeKey(structType) + "|" + st.Field(i).Name()
}
func cellMemKey(t types.Type) string { return "C|" + typeKey(t) }
func mapMemKey(t types.Type) string  { return "M|" + typeKey(t.Underlying()) }

// leafKeysOfValue: the memory keys written when a whole value of type t is stored at a plain
// address (not a field address).
func (p *Prog) leafKeysOfValue(t types.Type, out map[string]bool) {
	switch u := t.Underlying().(type) {
	case *types.Struct:
		for i := 0; i < u.NumFields(); i++ {
			p.leafKeysOfField(t, i, out)
		}
	case *types.Array:
		p.leafKeysOfValue(u.Elem(), out)
	default:
		out[cellMemKey(t)] = true
		// a plain pointer may point at an escaping scalar field of the same type
		for k := range p.escField {
			_ = k
		}
		p.addEscFieldsOfType(t, out)
	}
}

func (p *Prog) leafKeysOfField(structType types.Type, i int, out map[string]bool) {
	st := structType.Underlying().(*types.Struct)
	ft := st.Field(i).Type()
	switch u := ft.Underlying().(type) {
	case *types.Struct:
		for j := 0; j < u.NumFields(); j++ {
			p.leafKeysOfField(ft, j, out)
		}
	default:
		out[fieldMemKey(structType, i)] = true
	}
}

var escByType map[string][]string

func (p *Prog) addEscFieldsOfType(t types.Type, out map[string]bool) {
	if escByType == nil {
		escByType = map[string][]string{}
		// escField keys are "T.f"; we need the field type: resolve lazily through named types
		for _, nt := range p.namedTypes {
			st, ok := nt.Underlying().(*types.Struct)
			if !ok {
				continue
			}
			for i := 0; i < st.NumFields(); i++ {
				if p.escField[fieldKey(nt, i)] {
					tk := typeKey(st.Field(i).Type())
					escByType[tk] = append(escByType[tk], fieldMemKey(nt, i))
				}
			}
		}
	}
	for _, k := range escByType[typeKey(t)] {
		out[k] = true
	}
}

// Effects is the whole-program may-write summary.
type Effects struct {
	p         *Prog
	direct    map[*ssa.Function]map[string]bool
	callees   map[*ssa.Function][]*ssa.Function
	summary   map[*ssa.Function]map[string]bool
	addrTaken map[string][]*ssa.Function               // signature key -> repo functions used as values
	dyn       map[*ssa.Function]map[*ssa.Function]bool // edges that exist only through signature matching of function values
	cur       *ssa.Function
}

func (p *Prog) buildEffects() {
	e := &Effects{p: p, direct: map[*ssa.Function]map[string]bool{}, callees: map[*ssa.Function][]*ssa.Function{},
		summary: map[*ssa.Function]map[string]bool{}, addrTaken: map[string][]*ssa.Function{}}
	p.effects = e
	// address-taken functions
	for _, fn := range p.AllFuncs {
		if fn.Pkg == nil || !inRepo(fn.Pkg.Pkg.Path()) {
			continue
		}
		for _, b := range fn.Blocks {
			for _, ins := range b.Instrs {
				for _, op := range ins.Operands(nil) {
					if op == nil || *op == nil {
						continue
					}
					var tgt *ssa.Function
					switch v := (*op).(type) {
					case *ssa.Function:
						if c, ok := ins.(ssa.CallInstruction); ok && c.Common().Value == v {
							continue
						}
						tgt = v
					case *ssa.MakeClosure:
						if c, ok := ins.(ssa.CallInstruction); ok && c.Common().Value == v {
							continue
						}
						tgt = v.Fn.(*ssa.Function)
					}
					if tgt != nil && tgt.Signature != nil {
						k := sigKey(tgt.Signature)
						found := false
						for _, f := range e.addrTaken[k] {
							if f == tgt {
								found = true
							}
						}
						if !found {
							e.addrTaken[k] = append(e.addrTaken[k], tgt)
						}
					}
				}
			}
		}
	}
	for _, fn := range p.AllFuncs {
		if fn.Blocks == nil || fn.Pkg == nil && fn.Parent() == nil && fn.Origin() == nil {
			continue
		}
		if !e.isRepoFn(fn) {
			continue
		}
		e.scan(fn)
	}
	// fixpoint
	for fn, d := range e.direct {
		s := map[string]bool{}
		for k := range d {
			s[k] = true
		}
		e.summary[fn] = s
	}
	changed := true
	for changed {
		changed = false
		for fn, cs := range e.callees {
			s := e.summary[fn]
			for _, c := range cs {
				for k := range e.summary[c] {
					if !s[k] {
						s[k] = true
						changed = true
					}
				}
			}
		}
	}
}

func (e *Effects) isRepoFn(fn *ssa.Function) bool {
	f := fn
	for f.Parent() != nil {
		f = f.Parent()
	}
	if f.Origin() != nil {
		f = f.Origin()
	}
	if f.Pkg != nil {
		return inRepo(f.Pkg.Pkg.Path())
	}
	// synthetic wrappers / thunks
	if f.Object() != nil && f.Object().Pkg() != nil {
		return inRepo(f.Object().Pkg().Path())
	}
	return false
}

func sigKey(s *types.Signature) string {
	// signature without receiver
	return types.TypeString(types.NewSignatureType(nil, nil, nil, s.Params(), s.Results(), s.Variadic()), func(p *types.Package) string { return p.Path() })
}

// storeKeys: keys written by a store of a value of type t through address value addr.
func (p *Prog) storeKeys(addr ssa.Value, t types.Type, out map[string]bool) {
	switch a := addr.(type) {
	case *ssa.Alloc:
		if !a.Heap {
			return
		}
	case *ssa.FieldAddr:
		if root := rootAlloc(a); root != nil && !root.Heap {
			return
		}
		st := a.X.Type().Underlying().(*types.Pointer).Elem()
		p.leafKeysOfField(st, a.Field, out)
		return
	case *ssa.IndexAddr:
		if root := rootAlloc(a); root != nil && !root.Heap {
			return
		}
	}
	p.leafKeysOfValue(t, out)
}

// freshRoot: the object addressed by (or the backing store of) v was certainly allocated by the
// current invocation of the enclosing function: an Alloc / MakeSlice / MakeMap, an address inside
// one, a nil slice or map grown by append, or the content of a local variable cell (address never
// taken) that is only ever assigned such values. Values read out of other memory are never fresh.
func freshRoot(v ssa.Value, seen map[ssa.Value]bool) bool {
	if seen[v] {
		return true // coinductive: dl = append(dl, ...)
	}
	seen[v] = true
	switch t := v.(type) {
	case *ssa.Alloc, *ssa.MakeSlice, *ssa.MakeMap:
		return true
	case *ssa.Const:
		return t.IsNil()
	case *ssa.FieldAddr:
		return freshRoot(t.X, seen)
	case *ssa.IndexAddr:
		return freshRoot(t.X, seen)
	case *ssa.Slice:
		if _, isStr := t.X.Type().Underlying().(*types.Basic); isStr {
			return false
		}
		return freshRoot(t.X, seen)
	case *ssa.ChangeType:
		return freshRoot(t.X, seen)
	case *ssa.Phi:
		for _, e := range t.Edges {
			if !freshRoot(e, seen) {
				return false
			}
		}
		return true
	case *ssa.Call:
		if b, ok := t.Call.Value.(*ssa.Builtin); ok && b.Name() == "append" && len(t.Call.Args) > 0 {
			return freshRoot(t.Call.Args[0], seen)
		}
		return false
	case *ssa.UnOp:
		if t.Op != token.MUL {
			return false
		}
		cell, ok := t.X.(*ssa.Alloc)
		if !ok || cell.Referrers() == nil {
			return false
		}
		switch deref(cell.Type()).Underlying().(type) {
		case *types.Slice, *types.Pointer, *types.Map:
		default:
			return false
		}
		stores := 0
		for _, r := range *cell.Referrers() {
			switch u := r.(type) {
			case *ssa.Store:
				if u.Addr != ssa.Value(cell) || u.Val == ssa.Value(cell) {
					return false
				}
				stores++
				if !freshRoot(u.Val, seen) {
					return false
				}
			case *ssa.UnOp:
				if u.Op != token.MUL {
					return false
				}
			case *ssa.DebugRef:
			default:
				return false // address taken (captured, passed on, field of it addressed, ...)
			}
		}
		return stores > 0
	}
	return false
}

// privateSliceCell: the local slice variable held in cell a only ever holds slices whose backing
// array this invocation allocated (freshRoot), and neither the variable nor its elements' addresses
// are handed to anything that could keep or write them: no callee can touch the elements.
func privateSliceCell(a *ssa.Alloc) bool {
	if a.Heap || a.Referrers() == nil {
		return false
	}
	if _, ok := deref(a.Type()).Underlying().(*types.Slice); !ok {
		return false
	}
	stores := 0
	for _, r := range *a.Referrers() {
		switch u := r.(type) {
		case *ssa.Store:
			if u.Addr != ssa.Value(a) || !freshRoot(u.Val, map[ssa.Value]bool{}) {
				return false
			}
			stores++
		case *ssa.UnOp:
			if u.Op != token.MUL || u.Referrers() == nil {
				return false
			}
			for _, use := range *u.Referrers() {
				switch w := use.(type) {
				case *ssa.DebugRef, *ssa.Range:
				case *ssa.Store:
					if w.Val == ssa.Value(u) && w.Addr != ssa.Value(a) {
						return false
					}
				case *ssa.IndexAddr:
					if w.Referrers() == nil {
						return false
					}
					for _, e := range *w.Referrers() {
						switch ee := e.(type) {
						case *ssa.UnOp:
							if ee.Op != token.MUL {
								return false
							}
						case *ssa.Store:
							if ee.Addr != ssa.Value(w) {
								return false
							}
						case *ssa.DebugRef:
						default:
							return false
						}
					}
				case *ssa.Call:
					if b, ok := w.Call.Value.(*ssa.Builtin); ok {
						switch b.Name() {
						case "len", "cap":
						case "append":
							if len(w.Call.Args) == 0 || w.Call.Args[0] != ssa.Value(u) {
								return false
							}
							for _, other := range w.Call.Args[1:] {
								if other == ssa.Value(u) {
									return false
								}
							}
						default:
							return false
						}
					} else if f := w.Call.StaticCallee(); f != nil && pureExtern(f.String()) {
					} else {
						return false
					}
				default:
					return false
				}
			}
		case *ssa.DebugRef:
		default:
			return false
		}
	}
	return stores > 0
}

// rootAlloc follows FieldAddr/IndexAddr chains down to a local Alloc, if any.
func rootAlloc(v ssa.Value) *ssa.Alloc {
	for {
		switch x := v.(type) {
		case *ssa.Alloc:
			return x
		case *ssa.FieldAddr:
			v = x.X
		case *ssa.IndexAddr:
			if _, ok := x.X.Type().Underlying().(*types.Pointer); ok {
				v = x.X
			} else {
				return nil
			}
		default:
			return nil
		}
	}
}

func (e *Effects) markDyn(from, to *ssa.Function) {
	if from == nil {
		return
	}
	if e.dyn == nil {
		e.dyn = map[*ssa.Function]map[*ssa.Function]bool{}
	}
	if e.dyn[from] == nil {
		e.dyn[from] = map[*ssa.Function]bool{}
	}
	e.dyn[from][to] = true
}

func (e *Effects) scan(fn *ssa.Function) {
	e.cur = fn
	d := map[string]bool{}
	e.direct[fn] = d
	addCallee := func(c *ssa.Function) {
		if c == nil {
			return
		}
		e.callees[fn] = append(e.callees[fn], c)
	}
	for _, b := range fn.Blocks {
		for _, ins := range b.Instrs {
			switch x := ins.(type) {
			case *ssa.Store:
				if freshRoot(x.Addr, map[ssa.Value]bool{}) {
					// a write into an object this very invocation allocated is not a write to
					// anything that existed in the caller's pre-state
					continue
				}
				e.p.storeKeys(x.Addr, x.Val.Type(), d)
			case *ssa.MapUpdate:
				if freshRoot(x.Map, map[ssa.Value]bool{}) {
					continue
				}
				d[mapMemKey(x.Map.Type())] = true
			case *ssa.Send:
				d["X|chan"] = true
			case *ssa.UnOp:
				// receive has no memory effect in the model
			case ssa.CallInstruction:
				e.scanCall(fn, x, d, addCallee)
			}
		}
	}
	// anonymous functions defined here are separate functions; nothing to add
}

func (e *Effects) scanCall(fn *ssa.Function, ci ssa.CallInstruction, d map[string]bool, addCallee func(*ssa.Function)) {
	c := ci.Common()
	if c.IsInvoke() {
		// interface method: CHA over repo implementations + external assumption (writes only via args)
		for _, impl := range e.p.implementations(c.Value.Type(), c.Method) {
			addCallee(impl)
		}
		e.externArgEffects(c.Args, d, addCallee)
		return
	}
	switch v := c.Value.(type) {
	case *ssa.Builtin:
		switch v.Name() {
		case "append", "copy", "clear":
			if len(c.Args) > 0 && !freshRoot(c.Args[0], map[ssa.Value]bool{}) {
				if sl, ok := c.Args[0].Type().Underlying().(*types.Slice); ok {
					e.p.leafKeysOfValue(sl.Elem(), d)
				}
				if m, ok := c.Args[0].Type().Underlying().(*types.Map); ok {
					d[mapMemKey(m)] = true
				}
			}
		case "delete":
			if !freshRoot(c.Args[0], map[ssa.Value]bool{}) {
				d[mapMemKey(c.Args[0].Type())] = true
			}
		}
		return
	case *ssa.Function:
		if e.isRepoFn(v) && v.Blocks != nil {
			addCallee(v)
		} else {
			e.externCallEffects(v, c.Args, d, addCallee)
		}
		return
	case *ssa.MakeClosure:
		addCallee(v.Fn.(*ssa.Function))
		return
	}
	// dynamic call through a function value: every address-taken repo function of that signature
	if sig, ok := c.Value.Type().Underlying().(*types.Signature); ok {
		for _, f := range e.addrTaken[sigKey(sig)] {
			e.markDyn(fn, f)
			addCallee(f)
		}
	}
	e.externArgEffects(c.Args, d, addCallee)
}

// externCallEffects: a function outside the repository (or without body). Assumption (listed in
// every evidence file): it writes only memory reachable by static type from its pointer-carrying
// arguments (not through interface or func values other than by calling their methods), and may
// call methods of interface-typed arguments and function-typed arguments.
func (e *Effects) externCallEffects(callee *ssa.Function, args []ssa.Value, d map[string]bool, addCallee func(*ssa.Function)) {
	name := callee.String()
	if pureExtern(name) {
		return
	}
	e.externArgEffects(args, d, addCallee)
}

func pureExtern(name string) bool {
	for _, p := range []string{"strings.", "strconv.", "unicode.", "unicode/utf8.", "path.", "path/filepath.Join", "path/filepath.Clean",
		"path/filepath.Base", "path/filepath.Dir", "path/filepath.Rel", "path/filepath.ToSlash", "path/filepath.FromSlash", "path/filepath.Split", "path/filepath.Ext", "path/filepath.IsAbs",
		"fmt.Sprintf", "fmt.Errorf", "fmt.Sprint", "errors.New", "errors.Is", "errors.Unwrap", "errors.Join", "math.", "math/bits.",
		"time.Now", "time.Since", "time.Until", "(time.Time).", "(time.Duration).", "time.Duration.", "(*time.Time).Unix", "time.Unix", "time.Parse",
		"(github.com/opencontainers/go-digest.Digest).", "(github.com/opencontainers/go-digest.Algorithm).", "github.com/opencontainers/go-digest.Parse",
		"github.com/opencontainers/go-digest.FromBytes", "github.com/opencontainers/go-digest.FromString", "github.com/opencontainers/go-digest.NewDigestFromEncoded",
		"(net/http.Header).Get", "(net/http.Header).Values", "(net/url.Values).Get", "(net/url.Values).Encode", "(*net/url.URL).String", "(*net/url.URL).Query", "net/url.Parse",
		"(*regexp.Regexp).MatchString", "(*regexp.Regexp).FindStringSubmatch", "(*regexp.Regexp).FindAllStringSubmatch", "regexp.MustCompile", "regexp.Compile", "regexp.QuoteMeta",
		"(*sync.Mutex).", "(*sync.RWMutex).", "slices.Contains", "slices.Index", "slices.Equal", "bytes.Equal", "bytes.NewReader", "bytes.NewBuffer", "bytes.HasPrefix",
		"context.With", "(context.Context).", "os.Getenv", "os.LookupEnv", "(*log/slog.Logger).", "log/slog.", "encoding/json.Marshal", "encoding/json.MarshalIndent",
		"encoding/base64.", "encoding/hex.", "sort.SearchStrings", "reflect.DeepEqual", "io.NopCloser", "io.TeeReader", "io.LimitReader", "io.MultiReader", "io.MultiWriter",
	} {
		if strings.HasPrefix(name, p) {
			return true
		}
	}
	return false
}

func (e *Effects) externArgEffects(args []ssa.Value, d map[string]bool, addCallee func(*ssa.Function)) {
	for _, a := range args {
		t := a.Type()
		if mi, ok := a.(*ssa.MakeInterface); ok {
			t = mi.X.Type()
		}
		if ci, ok := a.(*ssa.ChangeInterface); ok {
			if mi, ok := ci.X.(*ssa.MakeInterface); ok {
				t = mi.X.Type()
			}
		}
		switch v := a.(type) {
		case *ssa.Function:
			addCallee(v)
			continue
		case *ssa.MakeClosure:
			addCallee(v.Fn.(*ssa.Function))
			continue
		}
		e.typeReach(t, 0, d, addCallee, map[string]bool{})
	}
}

// typeReach: memory writable through a value of type t handed to external code.
func (e *Effects) typeReach(t types.Type, depth int, d map[string]bool, addCallee func(*ssa.Function), seen map[string]bool) {
	if depth > 4 {
		return
	}
	k := typeKey(t)
	if seen[k] {
		return
	}
	seen[k] = true
	switch u := t.Underlying().(type) {
	case *types.Pointer:
		e.p.leafKeysOfValue(u.Elem(), d)
		e.reachInside(u.Elem(), depth+1, d, addCallee, seen)
	case *types.Slice:
		e.p.leafKeysOfValue(u.Elem(), d)
		e.reachInside(u.Elem(), depth+1, d, addCallee, seen)
	case *types.Map:
		d[mapMemKey(t)] = true
		e.reachInside(u.Elem(), depth+1, d, addCallee, seen)
	case *types.Interface:
		// the callee may invoke the methods of the interface on repo implementations
		if u.NumMethods() > 0 && u.NumMethods() <= 6 {
			for i := 0; i < u.NumMethods(); i++ {
				for _, impl := range e.p.implementations(t, u.Method(i)) {
					addCallee(impl)
				}
			}
		}
	case *types.Signature:
		for _, f := range e.addrTaken[sigKey(u)] {
			e.markDyn(e.cur, f)
			addCallee(f)
		}
	case *types.Struct:
		e.reachInside(t, depth, d, addCallee, seen)
	}
}

// reachInside: pointers stored inside a value of type t.
func (e *Effects) reachInside(t types.Type, depth int, d map[string]bool, addCallee func(*ssa.Function), seen map[string]bool) {
	switch u := t.Underlying().(type) {
	case *types.Struct:
		for i := 0; i < u.NumFields(); i++ {
			ft := u.Field(i).Type()
			switch ft.Underlying().(type) {
			case *types.Pointer, *types.Slice, *types.Map, *types.Struct:
				e.typeReach(ft, depth+1, d, addCallee, seen)
			}
		}
	case *types.Pointer, *types.Slice, *types.Map:
		e.typeReach(t, depth+1, d, addCallee, seen)
	}
}

// implementations: repo methods that may be the target of an interface method call (CHA).
func (p *Prog) implementations(recv types.Type, m *types.Func) []*ssa.Function {
	iface, ok := recv.Underlying().(*types.Interface)
	if !ok {
		return nil
	}
	key := typeKey(recv) + "#" + m.Name()
	if r, ok := p.implCache[key]; ok {
		return r
	}
	var out []*ssa.Function
	for _, nt := range p.namedTypes {
		if nt.Obj().Pkg() == nil || !inRepo(nt.Obj().Pkg().Path()) {
			continue
		}
		if _, isIface := nt.Underlying().(*types.Interface); isIface {
			continue
		}
		if nt.TypeParams().Len() > 0 {
			continue
		}
		for _, t := range []types.Type{nt, types.NewPointer(nt)} {
			if types.Implements(t, iface) {
				sel := p.SSA.MethodSets.MethodSet(t).Lookup(m.Pkg(), m.Name())
				if sel != nil {
					if fn := p.SSA.MethodValue(sel); fn != nil {
						out = append(out, fn)
					}
				}
				break
			}
		}
	}
	p.implCache[key] = out
	return out
}

func (e *Effects) of(fn *ssa.Function) []string {
	s := e.summary[fn]
	out := make([]string, 0, len(s))
	for k := range s {
		out = append(out, k)
	}
	sort.Strings(out)
	return out
}

// callEffects: keys a call instruction may write (without looking at contracts).
func (e *Effects) callEffects(fn *ssa.Function, ci ssa.CallInstruction) []string {
	d := map[string]bool{}
	var cs []*ssa.Function
	e.scanCall(fn, ci, d, func(c *ssa.Function) {
		if c != nil {
			cs = append(cs, c)
		}
	})
	for _, c := range cs {
		if s, ok := e.summary[c]; ok {
			dynOnly := e.dyn[fn][c]
			for k := range s {
				if dynOnly && strings.HasPrefix(k, "G|") {
					continue // see addGhostEffects
				}
				d[k] = true
			}
		} else if c.Blocks != nil && e.isRepoFn(c) {
			// synthetic wrapper created after the scan
			e.scan(c)
			// one-level closure
			for k := range e.direct[c] {
				d[k] = true
			}
			for _, cc := range e.callees[c] {
				for k := range e.summary[cc] {
					d[k] = true
				}
			}
		}
	}
	out := make([]string, 0, len(d))
	for k := range d {
		out = append(out, k)
	}
	sort.Strings(out)
	return out
}

// allocEscapes: may the address of this allocation be held by anything other than the code of
// the function itself (and closures it calls directly)? If not, no callee can write the object.
func allocEscapes(a *ssa.Alloc) bool {
	seen := map[ssa.Value]bool{}
	return valueEscapes(a, seen, 0)
}

func valueEscapes(v ssa.Value, seen map[ssa.Value]bool, depth int) bool {
	if seen[v] {
		return false
	}
	seen[v] = true
	if depth > 6 {
		return true
	}
	refs := v.Referrers()
	if refs == nil {
		return true
	}
	for _, r := range *refs {
		switch x := r.(type) {
		case *ssa.DebugRef:
		case *ssa.UnOp:
			// load through the pointer
		case *ssa.Store:
			if x.Val == v {
				return true
			}
		case *ssa.FieldAddr:
			if valueEscapes(x, seen, depth+1) {
				return true
			}
		case *ssa.IndexAddr:
			if valueEscapes(x, seen, depth+1) {
				return true
			}
		case *ssa.MakeClosure:
			// captured: fine if the closure is only ever called directly and the captured variable
			// does not escape inside the closure either
			esc := closureEscapes(x, seen, depth+1)
			fn := x.Fn.(*ssa.Function)
			for i, b := range x.Bindings {
				if b == v && i < len(fn.FreeVars) {
					if valueEscapes(fn.FreeVars[i], seen, depth+1) {
						return true
					}
					// a closure that escapes (stored, passed on, run as goroutine) may run at any
					// time: the variable stays private only if that closure never assigns it
					if esc && freeVarWritten(fn.FreeVars[i], 0) {
						return true
					}
				}
			}
		default:
			return true
		}
	}
	return false
}

func closureEscapes(c *ssa.MakeClosure, seen map[ssa.Value]bool, depth int) bool {
	refs := c.Referrers()
	if refs == nil {
		return true
	}
	for _, r := range *refs {
		switch x := r.(type) {
		case *ssa.DebugRef:
		case *ssa.Call:
			if x.Call.Value != c {
				return true
			}
		case *ssa.Defer:
			if x.Call.Value != c {
				return true
			}
		default:
			return true
		}
	}
	return false
}

// allocWrittenInLoop: may a non-escaping allocation be assigned inside the given loop body –
// by a direct store in the loop, or by a store in any closure that captures it (closures are
// treated conservatively: a capturing closure that stores to the variable counts wherever it is).
func allocWrittenInLoop(a *ssa.Alloc, body map[*ssa.BasicBlock]bool) bool {
	for b := range body {
		for _, ins := range b.Instrs {
			if st, ok := ins.(*ssa.Store); ok {
				if rootAlloc(st.Addr) == a {
					return true
				}
			}
		}
	}
	refs := a.Referrers()
	if refs == nil {
		return true
	}
	for _, r := range *refs {
		if mc, ok := r.(*ssa.MakeClosure); ok {
			fn := mc.Fn.(*ssa.Function)
			for i, bnd := range mc.Bindings {
				if bnd == a && i < len(fn.FreeVars) {
					if freeVarWritten(fn.FreeVars[i], 0) {
						return true
					}
				}
			}
		}
	}
	return false
}

// immutableCapture: the variable behind a closure's free variable is assigned exactly once, in
// the function that declares it and before it can be shared (its only store is in the declaring
// function), and no closure that captures it (transitively) ever writes it or takes a derived
// address it stores through. Whoever runs concurrently, every read of it sees the same value.
func immutableCapture(fn *ssa.Function, fv *ssa.FreeVar, depth int) bool {
	if depth > 5 || fn.Parent() == nil {
		return false
	}
	idx := -1
	for i, f := range fn.FreeVars {
		if f == fv {
			idx = i
		}
	}
	if idx < 0 {
		return false
	}
	parent := fn.Parent()
	ok := false
	for _, b := range parent.Blocks {
		for _, ins := range b.Instrs {
			mc, isMC := ins.(*ssa.MakeClosure)
			if !isMC || mc.Fn != ssa.Value(fn) || idx >= len(mc.Bindings) {
				continue
			}
			switch bnd := mc.Bindings[idx].(type) {
			case *ssa.Alloc:
				if bnd.Referrers() == nil {
					return false
				}
				stores := 0
				for _, r := range *bnd.Referrers() {
					switch u := r.(type) {
					case *ssa.Store:
						if u.Addr != ssa.Value(bnd) {
							return false
						}
						stores++
					case *ssa.UnOp, *ssa.DebugRef:
					case *ssa.FieldAddr:
						// reading a field of the variable in place is a read
						if !derivedOnlyRead(u, 0) {
							return false
						}
					case *ssa.MakeClosure:
						cf := u.Fn.(*ssa.Function)
						for i, bb := range u.Bindings {
							if bb == ssa.Value(bnd) && i < len(cf.FreeVars) && freeVarWritten(cf.FreeVars[i], 0) {
								return false
							}
						}
					default:
						return false
					}
				}
				if stores > 1 {
					return false
				}
				ok = true
			case *ssa.FreeVar:
				if freeVarWritten(bnd, 0) || !immutableCapture(parent, bnd, depth+1) {
					return false
				}
				ok = true
			default:
				return false
			}
		}
	}
	return ok
}

func freeVarWritten(fv *ssa.FreeVar, depth int) bool {
	if depth > 5 {
		return true
	}
	refs := fv.Referrers()
	if refs == nil {
		return false
	}
	for _, r := range *refs {
		switch x := r.(type) {
		case *ssa.Store:
			if rootValue(x.Addr) == ssa.Value(fv) {
				return true
			}
		case *ssa.FieldAddr:
			// stores through derived addresses, or derived addresses handed to somebody else
			if !derivedOnlyRead(x, 0) {
				return true
			}
		case *ssa.IndexAddr:
			if derivedStored(r.(ssa.Value), 0) {
				return true
			}
		case *ssa.MakeClosure:
			fn := x.Fn.(*ssa.Function)
			for i, bnd := range x.Bindings {
				if bnd == ssa.Value(fv) && i < len(fn.FreeVars) {
					if freeVarWritten(fn.FreeVars[i], depth+1) {
						return true
					}
				}
			}
		}
	}
	return false
}

func derivedStored(v ssa.Value, depth int) bool {
	if depth > 5 {
		return true
	}
	refs := v.Referrers()
	if refs == nil {
		return false
	}
	for _, r := range *refs {
		switch x := r.(type) {
		case *ssa.Store:
			if x.Addr == v {
				return true
			}
		case *ssa.FieldAddr, *ssa.IndexAddr:
			if derivedStored(r.(ssa.Value), depth+1) {
				return true
			}
		}
	}
	return false
}

// derivedOnlyRead: the address v (a field of a variable) is only loaded from, or refined to the
// address of a nested field that is itself only loaded from; it is never stored through, passed
// to a call, converted or kept.
func derivedOnlyRead(v ssa.Value, depth int) bool {
	if depth > 5 {
		return false
	}
	refs := v.Referrers()
	if refs == nil {
		return true
	}
	for _, r := range *refs {
		switch u := r.(type) {
		case *ssa.UnOp:
			if u.Op != token.MUL {
				return false
			}
		case *ssa.DebugRef:
		case *ssa.FieldAddr:
			if !derivedOnlyRead(u, depth+1) {
				return false
			}
		default:
			return false
		}
	}
	return true
}

func rootValue(v ssa.Value) ssa.Value {
	for {
		switch x := v.(type) {
		case *ssa.FieldAddr:
			v = x.X
		case *ssa.IndexAddr:
			if _, ok := x.X.Type().Underlying().(*types.Pointer); ok {
				v = x.X
			} else {
				return v
			}
		default:
			return v
		}
	}
}

// addGhostEffects: a function that (transitively) calls a function whose contract has ghost
// effects may change those ghost variables; recorded as G|<name> keys in the summaries of all
// transitive callers (the contracted function itself applies its effects explicitly).
func (e *Effects) addGhostEffects(db *ContractDB) {
	rev := map[*ssa.Function][]*ssa.Function{}
	// Ghost bookkeeping is propagated along static calls, closures and interface dispatch to
	// repository implementations, but NOT along calls of function values matched only by
	// signature (callbacks, release functions): those are assumed not to perform the tracked
	// operations on behalf of the caller (stated in the evidence).
	for f, cs := range e.callees {
		for _, c := range cs {
			if e.dyn[f][c] {
				continue
			}
			rev[c] = append(rev[c], f)
		}
	}
	for _, fc := range db.FuncList {
		if fc.Fn == nil || len(fc.Effects) == 0 {
			continue
		}
		var keys []string
		for _, ef := range fc.Effects {
			keys = append(keys, "G|"+ef.Ghost)
		}
		seen := map[*ssa.Function]bool{fc.Fn: true}
		stack := append([]*ssa.Function(nil), rev[fc.Fn]...)
		for len(stack) > 0 {
			f := stack[len(stack)-1]
			stack = stack[:len(stack)-1]
			if seen[f] {
				continue
			}
			seen[f] = true
			if e.summary[f] == nil {
				e.summary[f] = map[string]bool{}
			}
			for _, k := range keys {
				e.summary[f][k] = true
			}
			stack = append(stack, rev[f]...)
		}
	}
}
