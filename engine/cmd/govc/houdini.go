package main

import (
	"fmt"
	"os"
	"path/filepath"
	"strings"
	"sync"
)

// Candidate loop invariants ("candidate <label>: expr" inside a loop block) make a contract robust
// against equivalent rearrangements of a loop: they are not obligations. Before the check proper
// the function is executed with all candidates of its contract switched on and the candidates'
// own entry/preservation conditions are sent to the solver; every candidate that is not proved is
// dropped and the pass is repeated until the remaining set is inductive together with the
// declared invariants (the Houdini fixpoint). The survivors are then assumed at their loop heads;
// the declared invariants and every other obligation are proved as usual with them in place.
func houdini(p *Prog, db *ContractDB, o *options, dir string, relevant func(*FuncContract) bool) []string {
	var notes []string
	for _, fc := range db.FuncList {
		var cands []*Clause
		for _, l := range fc.Loops {
			if l == nil {
				continue
			}
			for _, c := range l.Invariants {
				if c.Candidate {
					cands = append(cands, c)
				}
			}
		}
		if len(cands) > 0 && !relevant(fc) {
			// not executed by this check: nothing is assumed from the candidates
			for _, c := range cands {
				c.Dropped = true
			}
			continue
		}
		if len(cands) == 0 || fc.Fn == nil || fc.Fn.Blocks == nil {
			for _, c := range cands {
				c.Dropped = true
			}
			continue
		}
		for round := 0; round < len(cands)+1; round++ {
			var u *Unit
			func() {
				defer func() {
					if r := recover(); r != nil {
						u = nil
					}
				}()
				u = verifyFunc(p, db, fc, "")
			}()
			if u == nil {
				for _, c := range cands {
					c.Dropped = true
				}
				break
			}
			failed := map[string]bool{}
			sub := filepath.Join(dir, "houdini")
			os.MkdirAll(sub, 0o755)
			type job struct {
				ob    *Obl
				label string
			}
			var jobs []job
			for _, ob := range u.Obls {
				i := strings.Index(ob.Name, "/candidate:")
				if i < 0 || ob.Goal == "true" {
					continue
				}
				label := ob.Name[i+len("/candidate:"):]
				if j := strings.IndexAny(label, "~#"); j >= 0 {
					label = label[:j]
				}
				jobs = append(jobs, job{ob, label})
			}
			var wg sync.WaitGroup
			sem := make(chan struct{}, 8)
			for k, j := range jobs {
				wg.Add(1)
				go func(k int, j job) {
					defer wg.Done()
					sem <- struct{}{}
					defer func() { <-sem }()
					solveObl(u.vc, j.ob, sub, "candidate", o.seed, 900000+round*1000+k)
				}(k, j)
			}
			wg.Wait()
			for _, j := range jobs {
				if j.ob.Result != "unsat" {
					failed[j.label] = true
				}
			}
			if len(failed) == 0 {
				break
			}
			for _, c := range cands {
				if failed[c.Label] && !c.Dropped {
					c.Dropped = true
					notes = append(notes, fmt.Sprintf("candidate invariant %s of %s dropped (not inductive on this tree)", c.Label, shortKey(fc.Key)))
				}
			}
		}
		for _, c := range cands {
			if !c.Dropped {
				c.Proved = true
				notes = append(notes, fmt.Sprintf("candidate invariant %s of %s holds (proved by the Houdini pre-pass, assumed at the loop head)", c.Label, shortKey(fc.Key)))
			}
		}
	}
	return notes
}
