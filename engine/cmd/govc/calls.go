package main

import (
	"fmt"
	"go/token"
	"go/types"
	"os"
	"strings"

	"golang.org/x/tools/go/ssa"
)

// calleeKey returns the contract key of the called function and, when statically known, the SSA
// function. For interface method calls the key is the method's full name "(io.Reader).Read".
func (x *Exec) resolveCallee(fr *Frame, st *State, c *ssa.CallCommon) (key string, fn *ssa.Function, bindings []string) {
	if c.IsInvoke() {
		return c.Method.FullName(), nil, nil
	}
	switch v := c.Value.(type) {
	case *ssa.Function:
		return v.String(), v, nil
	case *ssa.MakeClosure:
		f := v.Fn.(*ssa.Function)
		var bs []string
		for _, b := range v.Bindings {
			bs = append(bs, x.val(fr, st, b))
		}
		return f.String(), f, bs
	case *ssa.Builtin:
		return "builtin." + v.Name(), nil, nil
	}
	// dynamic: is the function value a known closure?
	t := x.val(fr, st, c.Value)
	if ci, ok := x.closures[t]; ok {
		return ci.fn.String(), ci.fn, ci.bindings
	}
	return "", nil, nil
}

// call executes a call instruction and then applies the on-call ghost hooks of the contract of
// the function under verification (direct calls in its own body only).
func (x *Exec) call(fr *Frame, st *State, ci ssa.CallInstruction) []string {
	res := x.callInner(fr, st, ci)
	if hc := x.hookContract(fr); hc != nil && len(hc.OnCall) > 0 {
		name := calleeShortName(ci.Common())
		if name == "" {
			if vn := dynCallName(ci.Common()); strings.HasPrefix(vn, "var:") {
				name = vn
			}
		}
		if os.Getenv("GOVC_DEBUG_ONCALL") != "" {
			fmt.Fprintf(os.Stderr, "on-call candidate %q in %s\n", name, shortFn(fr.fn))
		}
		var idxVal ssa.Value
		if name == "" {
			name, idxVal = elemCallName(ci.Common())
		}
		if effs, ok := hc.OnCall[name]; ok && name != "" {
			x.hookFired[hc.Key+"|"+name] = true
			bind := map[string]specVal{}
			if idxVal != nil {
				bind["idx"] = specVal{term: x.val(fr, st, idxVal), typ: tInt}
			}
			rts := x.resultTypes(ci.Common().Signature())
			for i, r := range res {
				if i < len(rts) {
					bind[fmt.Sprintf("result%d", i)] = specVal{term: r, typ: rts[i]}
					if len(res) == 1 {
						bind["result"] = specVal{term: r, typ: rts[i]}
					}
				}
			}
			for i, a := range ci.Common().Args {
				if la, isLocal := fr.laddr[a]; isLocal && la != nil {
					continue
				}
				bind[fmt.Sprintf("arg%d", i)] = specVal{term: x.val(fr, st, a), typ: a.Type()}
			}
			if ci.Common().IsInvoke() {
				bind["recv"] = specVal{term: x.val(fr, st, ci.Common().Value), typ: ci.Common().Value.Type()}
			}
			x.applyGhostEffects(fr, st, effs, "true", bind)
		}
	}
	return res
}

// hookContract: the contract whose statement hooks (on-call, on-recv, ...) apply to the
// instructions of this frame: the contract of the function under verification for its own body,
// and for a closure that is lexically part of the function under verification and was inlined
// into it, the closure's own contract (its hooks speak about the closure's variables).
func (x *Exec) hookContract(fr *Frame) *FuncContract {
	if fr.depth == 0 {
		return fr.contract
	}
	if x.top == nil || fr.fn.Parent() == nil {
		return nil
	}
	for f := fr.fn.Parent(); f != nil; f = f.Parent() {
		if f == x.top {
			if fc, ok := x.db.Funcs[fr.fn.String()]; ok {
				return fc
			}
			return nil
		}
	}
	return nil
}

// hookGhosts: every ghost assigned by a statement hook of the contract of fn or of a closure
// nested in fn.
func (x *Exec) hookGhosts(fn *ssa.Function, out map[string]bool) {
	if fc, ok := x.db.Funcs[fn.String()]; ok {
		for _, m := range []map[string][]*EffectSpec{fc.OnCall, fc.OnRecv, fc.OnSend, fc.OnDefer} {
			for _, effs := range m {
				for _, ef := range effs {
					out["G|"+ef.Ghost] = true
				}
			}
		}
		for _, ef := range fc.OnGo {
			out["G|"+ef.Ghost] = true
		}
	}
	for _, af := range fn.AnonFuncs {
		x.hookGhosts(af, out)
	}
}

// calleeShortName: the bare function or method name a call instruction names ("" for calls
// through function values).
func calleeShortName(c *ssa.CallCommon) string {
	if c.IsInvoke() {
		return c.Method.Name()
	}
	if f := c.StaticCallee(); f != nil {
		n := f.Name()
		if i := strings.Index(n, "["); i > 0 {
			n = n[:i] // instantiation: Acquire[T] -> Acquire
		}
		return n
	}
	return ""
}

// dynCallName: the name hooks use for a call instruction: the callee's short name, or var:<v> for a
// call through the local function variable v.
func dynCallName(c *ssa.CallCommon) string {
	if n := calleeShortName(c); n != "" {
		return n
	}
	if !c.IsInvoke() {
		if u, ok := c.Value.(*ssa.UnOp); ok && u.Op == token.MUL {
			if a, ok := u.X.(*ssa.Alloc); ok && a.Comment != "" {
				return "var:" + a.Comment
			}
		}
	}
	return ""
}

// elemCallName names a call through an element of a slice variable, `fs[i]()`: "elem:fs" and the
// index value. ("" when the call has another shape.)
func elemCallName(c *ssa.CallCommon) (string, ssa.Value) {
	if c.IsInvoke() {
		return "", nil
	}
	fieldName := func(fa *ssa.FieldAddr) string {
		if st, ok := deref(fa.X.Type()).Underlying().(*types.Struct); ok {
			return st.Field(fa.Field).Name()
		}
		return ""
	}
	// m[k](...) where m is a struct field holding a map of functions: "elem:<field>"
	if lk, ok := c.Value.(*ssa.Lookup); ok {
		if l2, ok := lk.X.(*ssa.UnOp); ok && l2.Op == token.MUL {
			if fa, ok := l2.X.(*ssa.FieldAddr); ok {
				if n := fieldName(fa); n != "" {
					return "elem:" + n, nil
				}
			}
		}
		return "", nil
	}
	ld, ok := c.Value.(*ssa.UnOp)
	if !ok || ld.Op != token.MUL {
		return "", nil
	}
	// x.f(...) where f is a struct field holding a function: "field:<f>"
	if fa, ok := ld.X.(*ssa.FieldAddr); ok {
		if n := fieldName(fa); n != "" {
			return "field:" + n, nil
		}
		return "", nil
	}
	ia, ok := ld.X.(*ssa.IndexAddr)
	if !ok {
		return "", nil
	}
	switch b := ia.X.(type) {
	case *ssa.UnOp:
		if b.Op == token.MUL {
			switch r := b.X.(type) {
			case *ssa.Alloc:
				if r.Comment != "" {
					return "elem:" + r.Comment, ia.Index
				}
			case *ssa.FreeVar:
				return "elem:" + r.Name(), ia.Index
			case *ssa.FieldAddr:
				// x.fs[i](...) where fs is a struct field holding a slice of functions
				if n := fieldName(r); n != "" {
					return "elem:" + n, ia.Index
				}
			}
		}
	case *ssa.Parameter:
		return "elem:" + b.Name(), ia.Index
	}
	return "", nil
}

func (x *Exec) callInner(fr *Frame, st *State, ci ssa.CallInstruction) []string {
	c := ci.Common()
	key, fn, bindings := x.resolveCallee(fr, st, c)
	var args []string
	var argTypes []types.Type
	if c.IsInvoke() {
		recv := x.val(fr, st, c.Value)
		args = append(args, recv)
		argTypes = append(argTypes, c.Value.Type())
		x.assume(st, fmt.Sprintf("(not (= %s inil))", recv)) // a nil interface receiver panics
	}
	for _, a := range c.Args {
		if la, ok := fr.laddr[a]; ok && la != nil {
			x.unsupp("address of local %s passed to call in %s", la.alloc.Comment, shortFn(fr.fn))
		}
		args = append(args, x.val(fr, st, a))
		argTypes = append(argTypes, a.Type())
	}
	sig := c.Signature()
	if strings.HasPrefix(key, "builtin.") {
		x.checkCallsites(fr, st, ci, key, nil, args, argTypes)
		return x.builtin(fr, st, ci, key[8:], args)
	}
	// generic instantiations share the contract of their origin
	if fn != nil && fn.Origin() != nil {
		if _, ok := x.db.Funcs[key]; !ok {
			key = fn.Origin().String()
		}
	}
	// call-site contracts (checked in the caller, whoever the callee is)
	x.checkCallsites(fr, st, ci, key, fn, args, argTypes)
	// a call through an element of a slice variable can be named "elem:<name>" (index: idx)
	if en, iv := elemCallName(c); en != "" {
		if iv != nil {
			x.elemIdx = x.val(fr, st, iv)
		}
		x.checkCallsites(fr, st, ci, en, nil, args, argTypes)
		x.elemIdx = ""
	}
	// a call through a local function variable can be named "var:<name>" in a call-site contract
	if !c.IsInvoke() {
		if u, ok := c.Value.(*ssa.UnOp); ok {
			if a, ok := u.X.(*ssa.Alloc); ok && a.Comment != "" {
				x.checkCallsites(fr, st, ci, "var:"+a.Comment, nil, args, argTypes)
			}
		}
	}

	if r, handled := x.specialCall(fr, st, ci, key, fn, args); handled {
		return r
	}
	// a closure called from the function that defines it is part of that function: a contract on the
	// closure that promises nothing (it only hosts hooks or scopes obligations for the closure's own
	// verification) must not turn the call into an opaque one
	hooksOnly := false
	if fc, ok := x.db.Funcs[key]; ok && fn != nil && fn.Parent() != nil && len(fc.Ensures) == 0 && !fc.HasMod && len(fc.Effects) == 0 && fc.Trusted == "" {
		for f := fr.fn; f != nil; f = f.Parent() {
			if f == fn.Parent() {
				hooksOnly = true
			}
		}
	}
	if fc, ok := x.db.Funcs[key]; ok && !hooksOnly && !(fr.contract != nil && fr.contract.Inline[fc.Name]) && !(fn != nil && (x.lemmaInline[fn.Name()] || (x.topC != nil && x.topC.Inline[fn.Name()]))) {
		if !(x.mode == "lemma" && fn != nil && fn.Blocks != nil && !fc.Extern && fc.Trusted == "") {
			return x.callByContract(fr, st, ci, fc, fn, args, argTypes, sig)
		}
	}
	if fn != nil && x.canInline(fr, fn, key) {
		return x.inlineCall(fr, st, fn, args, bindings)
	}
	return x.havocCall(fr, st, ci, key, sig, args)
}

func (x *Exec) resultTypes(sig *types.Signature) []types.Type {
	var out []types.Type
	for i := 0; i < sig.Results().Len(); i++ {
		out = append(out, sig.Results().At(i).Type())
	}
	return out
}

var debugHavoc = os.Getenv("GOVC_DEBUG_HAVOC")

func (x *Exec) traceHavoc(ci ssa.CallInstruction, key string, keys []string) {
	if debugHavoc == "" {
		return
	}
	for _, k := range keys {
		if strings.Contains(k, debugHavoc) {
			fmt.Fprintf(os.Stderr, "havoc %s by call %s at %s\n", k, key, x.p.pos(ci.Pos()))
		}
	}
}

func (x *Exec) havocCall(fr *Frame, st *State, ci ssa.CallInstruction, key string, sig *types.Signature, args []string) []string {
	keys := x.p.effects.callEffects(fr.fn, ci)
	x.traceHavoc(ci, key, keys)
	_, isClosure := ci.Common().Value.(*ssa.MakeClosure)
	if !isClosure && !ci.Common().IsInvoke() && ci.Common().StaticCallee() == nil {
		// a function value: only one created by this execution can have captured our locals
		if _, known := x.closures[x.val(fr, st, ci.Common().Value)]; known {
			isClosure = true
		}
	}
	if isClosure {
		// a closure (or unknown function value) may hold captured variables: local objects are not preserved
		saved := x.liveObjs
		x.liveObjs = nil
		x.havocKeysCall(st, keys, args)
		x.liveObjs = saved
	} else {
		x.havocKeysCall(st, keys, args)
	}
	var res []string
	for _, rt := range x.resultTypes(sig) {
		res = append(res, x.freshOfType(st, "call", rt))
	}
	return res
}

func (x *Exec) canInline(fr *Frame, fn *ssa.Function, key string) bool {
	if fn.Blocks == nil {
		return false
	}
	if !x.p.effects.isRepoFn(fn) {
		return false
	}
	// generic bodies and their instantiation wrappers mix concrete and type-parameter sorts
	for g := fn; g != nil; g = g.Parent() {
		if g.Origin() != nil || len(g.TypeArgs()) > 0 || (g.TypeParams() != nil && g.TypeParams().Len() > 0) {
			return false
		}
	}
	if x.mode == "sweep" && x.sweepSet[fn] {
		return false // swept as a unit of its own
	}
	for _, f := range x.inlineStack {
		if f == fn {
			return false
		}
	}
	c := fr.contract
	for f := fr; c == nil && f != nil; f = f.caller {
		c = f.contract
	}
	name := fn.Name()
	if c != nil {
		if c.Opaque[name] || c.Opaque[shortFn(fn)] {
			return false
		}
		if c.Inline[name] || c.Inline[shortFn(fn)] {
			return len(x.inlineStack) < 8
		}
	}
	limit := x.maxDepth
	if len(x.inlineStack) >= limit {
		return false
	}
	// closures defined in the function being verified are always inlined when called directly
	if fn.Parent() != nil {
		return true
	}
	n := 0
	for _, b := range fn.Blocks {
		n += len(b.Instrs)
	}
	if x.mode == "sweep" {
		return n <= 120
	}
	return n <= 400
}

func (x *Exec) inlineCall(fr *Frame, st *State, fn *ssa.Function, args []string, bindings []string) []string {
	x.inlinedFns[shortFn(fn)] = true
	nf := &Frame{fn: fn, vals: map[ssa.Value]string{}, laddr: map[ssa.Value]*LAddr{}, tuples: map[ssa.Value][]string{}, depth: fr.depth + 1, caller: fr}
	for i, p := range fn.Params {
		if i < len(args) {
			nf.vals[p] = args[i]
		} else {
			nf.vals[p] = x.freshOfType(st, "arg", p.Type())
		}
	}
	for i, fv := range fn.FreeVars {
		if i < len(bindings) {
			nf.vals[fv] = bindings[i]
		} else {
			nf.vals[fv] = x.freshOfType(st, "freevar", fv.Type())
		}
	}
	nf.entry = st.clone()
	nf.entry.objN = x.objCtr
	x.inlineStack = append(x.inlineStack, fn)
	exit, res := x.execFunc(nf, st)
	x.inlineStack = x.inlineStack[:len(x.inlineStack)-1]
	if exit == nil {
		st.reach = "false"
		st.pending = nil
		var out []string
		for _, rt := range x.resultTypes(fn.Signature) {
			out = append(out, x.vc.zero(rt))
		}
		return out
	}
	*st = *exit
	return res
}

// callByContract: assert requires, havoc the frame, assume ensures.
func (x *Exec) callByContract(fr *Frame, st *State, ci ssa.CallInstruction, fc *FuncContract, fn *ssa.Function, args []string, argTypes []types.Type, sig *types.Signature) []string {
	if fc.Extern {
		x.usedExterns[fc.Key] = true
	} else if fc.Trusted != "" {
		x.usedExterns[shortKey(fc.Key)+" (repository function, contract assumed: "+fc.Trusted+")"] = true
	} else {
		x.usedContracts[fc.Key] = true
	}
	env := x.calleeEnv(fr, st, fc, fn, ci.Common(), args, argTypes)
	pre := st.clone()
	pre.objN = x.objCtr
	env.old = pre
	env.st = st
	// lets are evaluated in the pre-state
	for _, l := range fc.Lets {
		var errs []string
		env.tolerant = &errs
		v := x.evalSpec(env, l.Expr)
		env.tolerant = nil
		if len(errs) > 0 {
			continue
		}
		env.names[l.Name] = v
	}
	if fr.depth == 0 || true {
		for _, r := range fc.Requires {
			goal := x.evalBool(env, r.Expr)
			if x.mode != "lemma" && x.wantObl(fc.Props) {
				x.callCount["req:"+fc.Key]++
				name := fmt.Sprintf("%s/requires:%s@call:%s#%d", shortFn(x.top), r.Label, shortKey(fc.Key), x.callCount["req:"+fc.Key])
				x.addObl(st, "requires", name, goal, x.p.pos(ci.Pos()), r.Text)
			}
			x.assume(st, goal)
		}
	}
	// scope of the contract, evaluated in the pre-state
	scope := "true"
	for _, sc := range fc.Scope {
		scope = and(scope, x.evalBool(env, sc.Expr))
	}
	scope = x.vc.define("scope", "Bool", scope)
	// frame
	if !fc.Pure {
		if fc.HasMod {
			if !fc.Extern && fc.Trusted == "" {
				x.usedExterns["declared frame of "+shortKey(fc.Key)+" (modifies clause is assumed, not checked: writes to objects the callee allocates cannot be told apart by the may-write analysis)"] = true
			}
			x.havocKeysCall(st, x.expandModifies(fc, env), args)
		} else {
			ks := x.p.effects.callEffects(fr.fn, ci)
			x.traceHavoc(ci, fc.Key, ks)
			x.havocKeysCall(st, ks, args)
		}
	}
	// results
	rts := x.resultTypes(sig)
	res := make([]string, len(rts))
	for i, rt := range rts {
		if i == 0 && fc.Fresh && x.vc.sortOf(rt) == "Ptr" {
			res[i] = x.newObj() // the contract says the result is a new object
		} else {
			res[i] = x.freshOfType(st, "res_"+lastName(fc.Key), rt)
		}
		name := fmt.Sprintf("result%d", i)
		if i < len(fc.Results) {
			name = fc.Results[i]
		} else if fn != nil && sig.Results().At(i).Name() != "" {
			name = sig.Results().At(i).Name()
		}
		env.names[name] = specVal{term: res[i], typ: rt}
		if len(rts) == 1 {
			env.names["result"] = specVal{term: res[i], typ: rt}
		}
	}
	env.st = st
	for _, e := range fc.Ensures {
		// a clause that mentions the callee's local variables cannot be used at a call site: it
		// is skipped (fewer assumptions – sound) and noted
		var errs []string
		env.tolerant = &errs
		phi := x.evalBool(env, e.Expr)
		env.tolerant = nil
		if len(errs) > 0 {
			x.vc.note(fmt.Sprintf("ensures %s of %s is not usable at call sites (%s)", e.Label, shortKey(fc.Key), errs[0]))
			continue
		}
		x.assume(st, implies(scope, phi))
	}
	for _, ef := range fc.Effects {
		v := x.evalSpec(env, ef.Expr)
		st.ghost[ef.Ghost] = x.vc.define("ghost_"+ef.Ghost, x.ghostSort(ef.Ghost), v.term)
	}
	return res
}

func lastName(key string) string {
	if i := strings.LastIndex(key, "."); i >= 0 {
		return key[i+1:]
	}
	return key
}

func shortKey(key string) string {
	s := strings.ReplaceAll(key, modPath+"/", "")
	s = strings.ReplaceAll(s, modPath+".", "regclient.")
	return s
}

func (x *Exec) wantObl(props []string) bool {
	if x.prop == "" {
		return true
	}
	for _, p := range props {
		if p == x.prop {
			return true
		}
	}
	return false
}

func (x *Exec) expandModifies(fc *FuncContract, env *SpecEnv) []string {
	var out []string
	for _, m := range fc.Modifies {
		// forms: F|type|field (explicit key), ghost $name, or Type.field relative to package
		switch {
		case strings.HasPrefix(m, "elems:"):
			// elems:<param>: the element memory of a slice parameter (and nothing reachable from the elements)
			if env != nil {
				if v, ok := env.names[m[6:]]; ok {
					if sl, ok := v.typ.Underlying().(*types.Slice); ok {
						keys := map[string]bool{}
						x.p.leafKeysOfValue(sl.Elem(), keys)
						out = append(out, sortedKeys(keys)...)
					}
				}
			}
		case strings.HasPrefix(m, "reach:"):
			// reach:<param>: whatever is writable through the argument by static type (for an
			// interface-typed parameter: the type of the value boxed at the call site)
			if env != nil {
				if v, ok := env.ssaArgs[m[6:]]; ok {
					t := v.Type()
					if mi, ok := v.(*ssa.MakeInterface); ok {
						t = mi.X.Type()
					}
					keys := map[string]bool{}
					x.p.effects.typeReach(t, 0, keys, func(*ssa.Function) {}, map[string]bool{})
					out = append(out, sortedKeys(keys)...)
				} else {
					x.unsupp("modifies reach:%s: no such parameter at this call", m[6:])
				}
			}
		case strings.HasPrefix(m, "$"):
			out = append(out, "G|"+m[1:])
		case strings.Contains(m, "|"):
			out = append(out, expandModRel(m))
		default:
			// T.f -> F|pkg.T|f
			i := strings.LastIndex(m, ".")
			if i > 0 {
				tn := expandModRel(m[:i])
				if !strings.Contains(tn, ".") && fc.Pkg != "" {
					tn = fc.Pkg + "." + tn
				}
				out = append(out, "F|"+tn+"|"+m[i+1:])
			}
		}
	}
	return out
}

// calleeEnv binds the callee's parameter names to the actual argument terms.
func (x *Exec) calleeEnv(fr *Frame, st *State, fc *FuncContract, fn *ssa.Function, c *ssa.CallCommon, args []string, argTypes []types.Type) *SpecEnv {
	env := &SpecEnv{x: x, names: map[string]specVal{}, st: st}
	env.pkg = x.pkgOfContract(fc.Pkg, fn)
	// names: from the SSA function if available, else from the contract header
	var names []string
	if fn != nil && len(fn.Params) == len(args) {
		for _, p := range fn.Params {
			names = append(names, p.Name())
		}
	}
	if fc.HasHdr || names == nil {
		// header names: receiver is called "recv" for externs unless SSA gave a name
		hn := fc.Params
		if len(hn) == len(args) {
			names = hn
		} else if len(hn)+1 == len(args) {
			rn := "recv"
			if names != nil && names[0] != "" {
				rn = names[0]
			}
			names = append([]string{rn}, hn...)
		}
	}
	var ssaArgs []ssa.Value
	if c != nil {
		if c.IsInvoke() {
			ssaArgs = append(ssaArgs, c.Value)
		}
		ssaArgs = append(ssaArgs, c.Args...)
	}
	env.ssaArgs = map[string]ssa.Value{}
	for i := range args {
		if i < len(names) && names[i] != "" && names[i] != "_" {
			env.names[names[i]] = specVal{term: args[i], typ: argTypes[i]}
			if len(ssaArgs) == len(args) {
				env.ssaArgs[names[i]] = ssaArgs[i]
			}
		}
		env.names[fmt.Sprintf("arg%d", i)] = specVal{term: args[i], typ: argTypes[i]}
	}
	if len(args) > 0 {
		env.names["recv"] = specVal{term: args[0], typ: argTypes[0]}
	}
	return env
}

func (x *Exec) pkgOfContract(pkgPath string, fn *ssa.Function) *types.Package {
	if pkgPath != "" {
		if pk, ok := x.p.AllPkgs[pkgPath]; ok {
			return pk.Types
		}
	}
	if fn != nil && fn.Pkg != nil {
		return fn.Pkg.Pkg
	}
	return nil
}

// ---------- builtins ----------

func (x *Exec) builtin(fr *Frame, st *State, ci ssa.CallInstruction, name string, args []string) []string {
	c := ci.Common()
	switch name {
	case "len":
		switch t := c.Args[0].Type().Underlying().(type) {
		case *types.Slice:
			return []string{fmt.Sprintf("(sl_len %s)", args[0])}
		case *types.Basic:
			return []string{fmt.Sprintf("(strlen %s)", args[0])}
		case *types.Map:
			_, _, lm := x.mapLen(st, c.Args[0].Type())
			r := x.vc.define("maplen", "Int", fmt.Sprintf("(select %s %s)", lm, args[0]))
			x.assume(st, fmt.Sprintf("(>= %s 0)", r))
			x.assume(st, fmt.Sprintf("(=> (= %s 0) (= %s 0))", args[0], r))
			return []string{r}
		case *types.Array:
			return []string{fmt.Sprintf("%d", t.Len())}
		case *types.Pointer:
			if a, ok := t.Elem().Underlying().(*types.Array); ok {
				return []string{fmt.Sprintf("%d", a.Len())}
			}
		}
		r := x.vc.freshConst("len", "Int")
		x.vc.assert(fmt.Sprintf("(>= %s 0)", r))
		return []string{r}
	case "cap":
		if _, ok := c.Args[0].Type().Underlying().(*types.Slice); ok {
			return []string{fmt.Sprintf("(sl_cap %s)", args[0])}
		}
		r := x.vc.freshConst("cap", "Int")
		x.vc.assert(fmt.Sprintf("(>= %s 0)", r))
		return []string{r}
	case "append":
		return []string{x.appendOp(fr, st, c, args)}
	case "copy":
		// elements of dst are overwritten: havoc the element memory
		if sl, ok := c.Args[0].Type().Underlying().(*types.Slice); ok {
			out := map[string]bool{}
			x.p.leafKeysOfValue(sl.Elem(), out)
			x.havocKeys(st, sortedKeys(out))
		}
		n := x.vc.freshConst("copied", "Int")
		srcLen := fmt.Sprintf("(sl_len %s)", args[1])
		if x.vc.sortOf(c.Args[1].Type()) == "Str" {
			srcLen = fmt.Sprintf("(strlen %s)", args[1])
		}
		x.vc.assert(fmt.Sprintf("(= %s (imin (sl_len %s) %s))", n, args[0], srcLen))
		return []string{n}
	case "delete":
		mt := c.Args[0].Type()
		hk, hs, hm := x.mapHas(st, mt)
		lk, ls, lm := x.mapLen(st, mt)
		had := fmt.Sprintf("(select (select %s %s) %s)", hm, args[0], args[1])
		x.setMem(st, lk, ls, fmt.Sprintf("(store %s %s (ite %s (- (select %s %s) 1) (select %s %s)))", lm, args[0], had, lm, args[0], lm, args[0]))
		x.setMem(st, hk, hs, fmt.Sprintf("(store %s %s (store (select %s %s) %s false))", hm, args[0], hm, args[0], args[1]))
		return nil
	case "min", "max":
		if x.vc.sortOf(c.Args[0].Type()) == "Int" {
			r := args[0]
			for _, a := range args[1:] {
				r = fmt.Sprintf("(i%s %s %s)", name, r, a)
			}
			return []string{x.vc.define(name, "Int", r)}
		}
	case "panic":
		st.reach = "false"
		st.pending = nil
		return nil
	case "print", "println", "close":
		return nil
	case "recover":
		return []string{x.vc.freshConst("recovered", "Iface")}
	case "new":
		p := x.newObj()
		return []string{p}
	case "ssa:wrapnilchk":
		return []string{args[0]}
	case "ssa:deferstack":
		if v, ok := ci.(ssa.Value); ok {
			return []string{x.vc.zero(v.Type())}
		}
		return []string{"any_zero"}
	case "clear":
		return x.havocCall(fr, st, ci, "builtin.clear", c.Signature(), args)
	}
	var res []string
	if sig := c.Signature(); sig != nil {
		for _, rt := range x.resultTypes(sig) {
			res = append(res, x.freshOfType(st, "bi_"+name, rt))
		}
	} else if v, ok := ci.(ssa.Value); ok && v.Type() != nil {
		res = append(res, x.freshOfType(st, "bi_"+name, v.Type()))
	}
	return res
}

// appendOp models append(s, elems...) for a variadic slice argument: in place when the capacity
// suffices, otherwise a fresh backing array; the old elements are preserved in both cases.
func (x *Exec) appendOp(fr *Frame, st *State, c *ssa.CallCommon, args []string) string {
	s := args[0]
	if len(args) < 2 {
		return s
	}
	st0 := c.Args[0].Type().Underlying().(*types.Slice)
	et := st0.Elem()
	add := args[1]
	var addLen string
	if x.vc.sortOf(c.Args[1].Type()) == "Str" {
		addLen = fmt.Sprintf("(strlen %s)", add)
	} else {
		addLen = fmt.Sprintf("(sl_len %s)", add)
	}
	newLen := x.vc.define("applen", "Int", fmt.Sprintf("(+ (sl_len %s) %s)", s, addLen))
	inPlace := x.vc.define("inplace", "Bool", fmt.Sprintf("(<= %s (sl_cap %s))", newLen, s))
	x.objCtr++
	freshArr := fmt.Sprintf("(- %d)", x.objCtr)
	newCap := x.vc.freshConst("appcap", "Int")
	x.vc.assert(fmt.Sprintf("(>= %s %s)", newCap, newLen))
	res := x.vc.define("app", "Slice", fmt.Sprintf("(ite %s (mk_slice (sl_arr %s) (sl_off %s) %s (sl_cap %s)) (mk_slice %s 0 %s %s))", inPlace, s, s, newLen, s, freshArr, newLen, newCap))
	if _, isStruct := et.Underlying().(*types.Struct); isStruct {
		x.appendElemsStruct(st, et, s, add, res, inPlace, newLen)
		return res
	}
	if x.vc.sortOf(c.Args[1].Type()) == "Str" {
		// append([]byte, string...): contents abstract
		x.havocMem(st, cellMemKey(et))
		return res
	}
	key := cellMemKey(et)
	srt := x.fieldArraySort(et)
	m0 := x.memGet(st, key, srt)
	x.havocMem(st, key)
	m1 := x.memGet(st, key, srt)
	x.appendFrame(st, m0, m1, s, add, res, inPlace, newLen, nil)
	x.memType[key] = et
	return res
}

// writtenCond: q is one of the element slots written by the append (path = nested field ids).
func writtenCond(q string, path []int, s, res, inPlace, newLen string) string {
	var conds []string
	cur := q
	for k := len(path) - 1; k >= 0; k-- {
		conds = append(conds, fmt.Sprintf("((_ is pfld) %s)", cur), fmt.Sprintf("(= (pfld_k %s) %d)", cur, path[k]))
		cur = fmt.Sprintf("(pfld_base %s)", cur)
	}
	conds = append(conds, fmt.Sprintf("((_ is pelem) %s)", cur), fmt.Sprintf("(= (pelem_arr %s) (sl_arr %s))", cur, res),
		fmt.Sprintf("(or (not %s) (and (>= (pelem_i %s) (+ (sl_off %s) (sl_len %s))) (< (pelem_i %s) (+ (sl_off %s) %s))))", inPlace, cur, s, s, cur, s, newLen))
	return and(conds...)
}

func wrapPath(base string, path []int) string {
	for _, id := range path {
		base = fmt.Sprintf("(pfld %s %d)", base, id)
	}
	return base
}

// appendFrame relates one element memory before (m0) and after (m1) an append; path is the
// chain of nested field ids between the element address and the base the memory is indexed by.
func (x *Exec) appendFrame(st *State, m0, m1, s, add, res, inPlace, newLen string, path []int) {
	q := x.vc.fresh("q")
	i := x.vc.fresh("i")
	x.assume(st, x.vc.quantified(fmt.Sprintf("(forall ((%s Ptr)) (! (=> (not %s) (= (select %s %s) (select %s %s))) :pattern ((select %s %s))))",
		q, writtenCond(q, path, s, res, inPlace, newLen), m1, q, m0, q, m1, q)))
	newOld := wrapPath(fmt.Sprintf("(pelem (sl_arr %s) (+ (sl_off %s) %s))", res, res, i), path)
	oldOld := wrapPath(fmt.Sprintf("(pelem (sl_arr %s) (+ (sl_off %s) %s))", s, s, i), path)
	x.assume(st, x.vc.quantified(fmt.Sprintf("(forall ((%s Int)) (! (=> (and (<= 0 %s) (< %s (sl_len %s))) (= (select %s %s) (select %s %s))) :pattern ((select %s %s))))",
		i, i, i, s, m1, newOld, m0, oldOld, m1, newOld)))
	newAdd := wrapPath(fmt.Sprintf("(pelem (sl_arr %s) (+ (sl_off %s) (sl_len %s) %s))", res, res, s, i), path)
	oldAdd := wrapPath(fmt.Sprintf("(pelem (sl_arr %s) (+ (sl_off %s) %s))", add, add, i), path)
	x.assume(st, x.vc.quantified(fmt.Sprintf("(forall ((%s Int)) (! (=> (and (<= 0 %s) (< %s (sl_len %s))) (= (select %s %s) (select %s %s))) :pattern ((select %s %s))))",
		i, i, i, add, m1, newAdd, m0, oldAdd, m1, newAdd)))
}

func (x *Exec) appendElemsStruct(st *State, et types.Type, s, add, res, inPlace, newLen string) {
	var walk func(t types.Type, path []int)
	walk = func(t types.Type, path []int) {
		stt := t.Underlying().(*types.Struct)
		for fi := 0; fi < stt.NumFields(); fi++ {
			ft := stt.Field(fi).Type()
			if _, ok := ft.Underlying().(*types.Struct); ok {
				walk(ft, append(append([]int(nil), path...), x.vc.fieldID(t, fi)))
				continue
			}
			key := fieldMemKey(t, fi)
			srt := x.fieldArraySort(ft)
			m0 := x.memGet(st, key, srt)
			x.havocMem(st, key)
			m1 := x.memGet(st, key, srt)
			x.memType[key] = ft
			x.appendFrame(st, m0, m1, s, add, res, inPlace, newLen, path)
		}
	}
	walk(et, nil)
}

// ---------- call-site contracts ----------

func (x *Exec) checkCallsites(fr *Frame, st *State, ci ssa.CallInstruction, key string, fn *ssa.Function, args []string, argTypes []types.Type) {
	if x.mode == "lemma" || x.coveredByOwnUnit(fr) {
		return
	}
	for _, cc := range x.db.Callsites {
		if cc.Key != key {
			continue
		}
		if !x.wantObl(cc.Props) {
			continue
		}
		// the call site is attributed to the function whose body contains it
		site := fr.fn
		pkgPath := ""
		if f := outermost(site); f.Pkg != nil {
			pkgPath = f.Pkg.Pkg.Path()
		}
		if len(cc.In) > 0 {
			ok := false
			for _, in := range cc.In {
				in = expandModRel(in)
				if pkgPath == in || (strings.HasSuffix(in, "/...") && strings.HasPrefix(pkgPath+"/", in[:len(in)-3])) {
					ok = true
				}
			}
			if !ok {
				continue
			}
		}
		if cc.InFunc != nil && !cc.InFunc.MatchString(shortFn(site)) {
			continue
		}
		skip := false
		for _, in := range cc.NotIn {
			in = expandModRel(in)
			if pkgPath == in || (strings.HasSuffix(in, "/...") && strings.HasPrefix(pkgPath+"/", in[:len(in)-3])) {
				skip = true
			}
		}
		if skip {
			continue
		}
		env := &SpecEnv{x: x, names: map[string]specVal{}, st: st, old: fr.entryOrSelf(st)}
		env.pkg = x.pkgOfContract(cc.Pkg, fn)
		names := cc.Params
		if fn != nil && len(names) == 0 {
			for _, p := range fn.Params {
				names = append(names, p.Name())
			}
		}
		off := 0
		if len(names)+1 == len(args) {
			off = 1
			env.names["recv"] = specVal{term: args[0], typ: argTypes[0]}
		}
		for i, n := range names {
			if i+off < len(args) && n != "_" {
				env.names[n] = specVal{term: args[i+off], typ: argTypes[i+off]}
			}
		}
		if len(args) > 0 {
			env.names["recv"] = specVal{term: args[0], typ: argTypes[0]}
		}
		env.callerFrame = fr
		if x.elemIdx != "" {
			env.names["idx"] = specVal{term: x.elemIdx, typ: tInt}
		}
		if cc.Where != nil {
			// a where clause that cannot even be evaluated at this site (e.g. it selects a field
			// the argument type does not have) means the contract is not about this site
			var werrs []string
			env.tolerant = &werrs
			w := x.evalBool(env, cc.Where.Expr)
			env.tolerant = nil
			if len(werrs) > 0 || w == "false" {
				continue
			}
			for _, r := range cc.Requires {
				goal := implies(w, x.evalBool(env, r.Expr))
				x.emitCallsiteObl(fr, st, ci, cc, r, goal)
			}
			continue
		}
		for _, r := range cc.Requires {
			goal := x.evalBool(env, r.Expr)
			x.emitCallsiteObl(fr, st, ci, cc, r, goal)
		}
	}
}

func (fr *Frame) entryOrSelf(st *State) *State {
	if fr.entry != nil {
		return fr.entry
	}
	return st
}

func outermost(fn *ssa.Function) *ssa.Function {
	for fn.Parent() != nil {
		fn = fn.Parent()
	}
	return fn
}

func (x *Exec) emitCallsiteObl(fr *Frame, st *State, ci ssa.CallInstruction, cc *CallsiteContract, r *Clause, goal string) {
	site := shortFn(fr.fn)
	ck := "cs:" + cc.Key + ":" + r.Label + ":" + site
	x.callCount[ck]++
	nm := cc.Name
	if nm == "" {
		nm = shortKey(cc.Key)
	}
	name := fmt.Sprintf("%s/requires:%s@call:%s#%d", site, r.Label, nm, x.callCount[ck])
	if fr.fn != x.top {
		name = fmt.Sprintf("%s/via:%s", name, shortFn(x.top))
	}
	o := x.addObl(st, "callsite", name, goal, x.p.pos(ci.Pos()), r.Text)
	// vacuity guard: the call site itself must be reachable in the model
	v := x.addObl(st, "vacuity", name+"/reachable", "true", x.p.pos(ci.Pos()), "the call site is reachable")
	v.MustSat = true
	_ = o
	x.callsites = append(x.callsites, fmt.Sprintf("%s at %s", nm, x.p.pos(ci.Pos())))
}
