package main

import (
	"context"
	"encoding/json"
	"fmt"
	"os"
	"os/exec"
	"path/filepath"
	"regexp"
	"strings"
	"time"
)

// A replay driver is an in-package Go test kept under /verif/replay_drivers; it is injected into
// the repository's package with `go test -overlay` (nothing is written to /repo), receives the
// failing obligation and the solver's model through environment variables, runs the REAL code
// and prints a line containing REPRODUCED when the violated clause is observed at run time.
type replayDriver struct {
	Match string `json:"match"` // regexp on the obligation name
	Pkg   string `json:"pkg"`   // package directory relative to the repository
	File  string `json:"file"`  // driver file under /verif/replay_drivers
	Test  string `json:"test"`
}

func loadDrivers(verif string) []replayDriver {
	b, err := os.ReadFile(filepath.Join(verif, "replay_drivers", "drivers.json"))
	if err != nil {
		return nil
	}
	var ds []replayDriver
	if err := json.Unmarshal(b, &ds); err != nil {
		fmt.Fprintln(os.Stderr, "drivers.json:", err)
	}
	return ds
}

var fnNameRE = regexp.MustCompile(`\.([A-Za-z_][A-Za-z0-9_]*)(?:\$\d+)*/`)

// replayOnRealCode runs the replay driver registered for the obligation, if any. It returns true
// when the driver reproduced the violation on the real code. The driver's output is appended to
// the replay file.
func replayOnRealCode(o *options, u *Unit, ob *Obl, path string) bool {
	for _, d := range loadDrivers(o.verif) {
		re, err := regexp.Compile(d.Match)
		if err != nil || !re.MatchString(ob.Name) {
			continue
		}
		work := filepath.Join(o.verif, "work", fmt.Sprintf("replay-%d-%d", os.Getpid(), time.Now().UnixNano()))
		os.MkdirAll(work, 0o755)
		defer os.RemoveAll(work)
		target := filepath.Join(o.repo, d.Pkg, "zz_verif_replay_test.go")
		ov := map[string]map[string]string{"Replace": {target: filepath.Join(o.verif, "replay_drivers", d.File)}}
		ovb, _ := json.Marshal(ov)
		ovPath := filepath.Join(work, "overlay.json")
		os.WriteFile(ovPath, ovb, 0o644)
		fn := ""
		if m := fnNameRE.FindStringSubmatch(ob.Name); m != nil {
			fn = m[1]
		}
		ctx, cancel := context.WithTimeout(context.Background(), 150*time.Second)
		defer cancel()
		cmd := exec.CommandContext(ctx, "go", "test", "-overlay", ovPath, "-vet=off", "-count=1", "-timeout", "60s", "-run", "^"+d.Test+"$", "./"+strings.TrimPrefix(d.Pkg, "./"))
		cmd.Dir = o.repo
		cmd.Env = append(os.Environ(), "GOFLAGS=-mod=mod", "GOPROXY=off", "GOSUMDB=off", "GOTOOLCHAIN=local",
			"VERIF_REPLAY_OP="+fn, "VERIF_REPLAY_OBLIGATION="+ob.Name, "VERIF_REPLAY_MODEL="+path)
		out, _ := cmd.CombinedOutput()
		reproduced := strings.Contains(string(out), "REPRODUCED")
		// append to the replay record
		var rec map[string]interface{}
		if b, err := os.ReadFile(path); err == nil && json.Unmarshal(b, &rec) == nil {
			rec["replay_driver"] = d.File
			rec["replay_cmd"] = strings.Join(cmd.Args, " ")
			rec["replay_output"] = trunc(string(out), 4000)
			rec["reproduced_on_real_code"] = reproduced
			nb, _ := json.MarshalIndent(rec, "", " ")
			os.WriteFile(path, nb, 0o644)
		}
		if reproduced {
			return true
		}
	}
	return false
}
