package main

// replayOnRealCode runs the replay driver registered for the obligation's function, if any.
func replayOnRealCode(o *options, u *Unit, ob *Obl, path string) bool {
	return false
}
