package main

import (
	"fmt"
	"go/types"
	"strings"

	"golang.org/x/tools/go/ssa"
)

func (x *Exec) errTag() int { return x.vc.typeTag(types.NewPointer(types.Typ[types.Uint8])) }

func (x *Exec) freshError() string {
	p := x.newObj()
	return fmt.Sprintf("(ibox %d (pay_ptr %s))", x.errTag(), p)
}

// specialCall handles the few library functions whose meaning is built into the model.
func (x *Exec) specialCall(fr *Frame, st *State, ci ssa.CallInstruction, key string, fn *ssa.Function, args []string) ([]string, bool) {
	c := ci.Common()
	switch {
	case strings.HasPrefix(key, "(*sync.Mutex).") || strings.HasPrefix(key, "(*sync.RWMutex)."):
		method := key[strings.LastIndex(key, ".")+1:]
		if m, self := x.monitorFor(c); m != nil {
			x.monitorCall(fr, st, ci, m, self, method)
		}
		// ghost: which mutex fields are held ($held(Type.field)); keyed by type and field, i.e. one
		// object of the type per function is assumed (the receiver) – stated in the evidence
		if len(c.Args) > 0 {
			if fa, ok := c.Args[0].(*ssa.FieldAddr); ok {
				stt := deref(fa.X.Type())
				gk := "held|" + typeKey(stt) + "." + stt.Underlying().(*types.Struct).Field(fa.Field).Name()
				switch method {
				case "Lock":
					st.ghost[gk] = "true"
				case "Unlock":
					st.ghost[gk] = "false"
				}
			}
		}
		if method == "TryLock" || method == "TryRLock" {
			return []string{x.vc.freshConst("trylock", "Bool")}, true
		}
		return nil, true
	case key == "fmt.Errorf" || key == "errors.New":
		if _, has := x.db.Funcs[key]; has {
			return nil, false
		}
		return []string{x.freshError()}, true
	case key == "errors.Is":
		if _, has := x.db.Funcs[key]; has {
			return nil, false
		}
		return []string{x.vc.define("eis", "Bool", fmt.Sprintf("(errors_is %s %s)", args[0], args[1]))}, true
	}
	return nil, false
}

func (x *Exec) checkFieldGuards(fr *Frame, st *State, structType types.Type, field int, base, v string) {
	// field-write guards are not implemented yet
}
