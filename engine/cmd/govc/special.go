package main

import (
	"fmt"
	"go/constant"
	"go/types"
	"strings"

	"golang.org/x/tools/go/ssa"
)

func (x *Exec) errTag() int { return x.vc.typeTag(types.NewPointer(types.Typ[types.Uint8])) }

func (x *Exec) freshError() string {
	p := x.newObj()
	return fmt.Sprintf("(ibox %d (pay_ptr %s))", x.errTag(), p)
}

// specialCall handles the few library functions whose meaning is built into the model.
func (x *Exec) specialCall(fr *Frame, st *State, ci ssa.CallInstruction, key string, fn *ssa.Function, args []string) ([]string, bool) {
	c := ci.Common()
	switch {
	case strings.HasPrefix(key, "(*sync.Mutex).") || strings.HasPrefix(key, "(*sync.RWMutex)."):
		method := key[strings.LastIndex(key, ".")+1:]
		if m, self := x.monitorFor(c); m != nil {
			x.monitorCall(fr, st, ci, m, self, method)
		}
		// ghost: which mutex fields are held ($held(Type.field)); keyed by type and field, i.e. one
		// object of the type per function is assumed (the receiver) – stated in the evidence
		if len(c.Args) > 0 {
			if fa, ok := c.Args[0].(*ssa.FieldAddr); ok {
				stt := deref(fa.X.Type())
				gk := "held|" + typeKey(stt) + "." + stt.Underlying().(*types.Struct).Field(fa.Field).Name()
				switch method {
				case "Lock":
					st.ghost[gk] = "true"
				case "Unlock":
					st.ghost[gk] = "false"
				}
			}
		}
		if method == "TryLock" || method == "TryRLock" {
			return []string{x.vc.freshConst("trylock", "Bool")}, true
		}
		return nil, true
	case key == "fmt.Errorf" || key == "errors.New":
		if _, has := x.db.Funcs[key]; has {
			return nil, false
		}
		r := x.freshError()
		if key == "fmt.Errorf" {
			// documented behaviour of the %w verb: the result wraps that operand, so errors.Is of the
			// result holds for every target for which it holds of the operand
			for _, a := range wrappedOperands(c) {
				if types.Identical(a.Type().Underlying(), types.Universe.Lookup("error").Type().Underlying()) {
					at := x.val(fr, st, a)
					x.assume(st, fmt.Sprintf("(forall ((t Iface)) (! (=> (errors_is %s t) (errors_is %s t)) :pattern ((errors_is %s t))))", at, r, r))
				}
			}
		}
		return []string{r}, true
	case key == "errors.Is":
		if _, has := x.db.Funcs[key]; has {
			return nil, false
		}
		return []string{x.vc.define("eis", "Bool", fmt.Sprintf("(errors_is %s %s)", args[0], args[1]))}, true
	}
	return nil, false
}

// wrappedOperands: the operands of a fmt.Errorf call that its constant format string consumes with
// the verb %w (explicit argument indexes and * widths are not used in this code base: with either
// present nothing is returned).
func wrappedOperands(c *ssa.CallCommon) []ssa.Value {
	if len(c.Args) < 2 {
		return nil
	}
	k, ok := c.Args[0].(*ssa.Const)
	if !ok || k.Value == nil {
		return nil
	}
	format := constant.StringVal(k.Value)
	if strings.Contains(format, "[") || strings.Contains(format, "*") {
		return nil
	}
	var wIdx []int
	n := 0
	for i := 0; i < len(format); i++ {
		if format[i] != '%' {
			continue
		}
		i++
		for i < len(format) && strings.ContainsRune("+-# 0123456789.", rune(format[i])) {
			i++
		}
		if i >= len(format) {
			break
		}
		if format[i] == '%' {
			continue
		}
		if format[i] == 'w' {
			wIdx = append(wIdx, n)
		}
		n++
	}
	if len(wIdx) == 0 {
		return nil
	}
	sl, ok := c.Args[1].(*ssa.Slice)
	if !ok {
		return nil
	}
	arr, ok := sl.X.(*ssa.Alloc)
	if !ok || arr.Referrers() == nil {
		return nil
	}
	var out []ssa.Value
	for _, r := range *arr.Referrers() {
		ia, ok := r.(*ssa.IndexAddr)
		if !ok || ia.Referrers() == nil {
			continue
		}
		ik, ok := ia.Index.(*ssa.Const)
		if !ok {
			continue
		}
		idx, _ := constant.Int64Val(ik.Value)
		want := false
		for _, w := range wIdx {
			if int64(w) == idx {
				want = true
			}
		}
		if !want {
			continue
		}
		for _, u := range *ia.Referrers() {
			if stv, ok := u.(*ssa.Store); ok && stv.Addr == ssa.Value(ia) {
				switch v := stv.Val.(type) {
				case *ssa.ChangeInterface:
					out = append(out, v.X)
				case *ssa.MakeInterface:
					out = append(out, v.X)
				}
			}
		}
	}
	return out
}

func (x *Exec) checkFieldGuards(fr *Frame, st *State, structType types.Type, field int, base, v string) {
	stt, ok := structType.Underlying().(*types.Struct)
	if !ok {
		return
	}
	x.checkAccessContracts(fr, st, "field", typeKey(structType), stt.Field(field).Name(), map[string]specVal{
		"v":    {term: v, typ: stt.Field(field).Type()},
		"base": {term: base, typ: types.NewPointer(structType)},
	})
}

// checkAccessContracts emits the obligations of fieldwrite / elemwrite / mapaccess contracts at a
// store or map access of the function being executed.
func (x *Exec) checkAccessContracts(fr *Frame, st *State, kind, tk, fname string, bind map[string]specVal) {
	if len(x.db.FieldWrites) == 0 || x.mode == "lemma" || x.coveredByOwnUnit(fr) {
		return
	}
	for _, fw := range x.db.FieldWrites {
		if fw.Kind != kind || fw.Type != tk || fw.Field != fname || !x.wantObl(fw.Props) {
			continue
		}
		site := fr.fn
		pkgPath := ""
		if f := outermost(site); f.Pkg != nil {
			pkgPath = f.Pkg.Pkg.Path()
		}
		if !fieldWriteInScope(fw, pkgPath) {
			continue
		}
		if fw.InFunc != nil && !fw.InFunc.MatchString(shortFn(site)) {
			continue
		}
		env := &SpecEnv{x: x, names: map[string]specVal{}, st: st, old: fr.entryOrSelf(st)}
		env.pkg = x.pkgOfContract(fw.Pkg, site)
		env.callerFrame = fr
		env.fr = fr
		for k, v := range bind {
			env.names[k] = v
		}
		x.fwCount[fw.Name+"@"+shortFn(site)]++
		n := x.fwCount[fw.Name+"@"+shortFn(site)]
		what := map[string]string{"field": "store", "elem": "store", "map": "access"}[kind]
		for _, r := range fw.Requires {
			goal := x.evalBool(env, r.Expr)
			name := fmt.Sprintf("%s/requires:%s@%s:%s#%d", shortFn(site), r.Label, what, fw.Name, n)
			if site != x.top && x.top != nil && x.top.Blocks != nil {
				name += "/via:" + shortFn(x.top)
			}
			x.addObl(st, "callsite", name, goal, x.p.pos(site.Pos()), r.Text)
		}
	}
}

// coveredByOwnUnit: the frame belongs to an inlined function that is verified as a unit of its own
// for the current property (it carries a function contract of that property): its call-site and
// access obligations are generated there, with its own hooks, and are not repeated in the caller.
func (x *Exec) coveredByOwnUnit(fr *Frame) bool {
	if fr.depth == 0 || fr.fn == nil {
		return false
	}
	fc, ok := x.db.Funcs[fr.fn.String()]
	return ok && !fc.Extern && x.wantObl(fc.Props)
}
