package main

import (
	"fmt"
	"go/token"
	"go/types"
	"os"
	"regexp"
	"sort"
	"strings"

	"golang.org/x/tools/go/packages"
	"golang.org/x/tools/go/ssa"
	"golang.org/x/tools/go/ssa/ssautil"
)

const modPath = "github.com/regclient/regclient"

// Prog is the loaded program: typed syntax, naive-form SSA and indexes.
type Prog struct {
	Fset     *token.FileSet
	Pkgs     []*packages.Package
	AllPkgs  map[string]*packages.Package
	SSA      *ssa.Program
	Funcs    map[string]*ssa.Function // by canonical name (fn.String())
	AllFuncs []*ssa.Function
	RepoDir  string

	namedTypes []*types.Named // all named types in the program (for CHA)
	implCache  map[string][]*ssa.Function

	immutableGlobals map[*ssa.Global]bool
	mutableGlobals   map[*ssa.Global]bool
	errInitNew       map[*ssa.Global]bool // global error var initialised by errors.New/fmt.Errorf in init

	escField map[string]bool // scalar fields (key T.f) whose address escapes somewhere in the repo

	effects *Effects
}

func inRepo(pkgPath string) bool {
	return pkgPath == modPath || strings.HasPrefix(pkgPath, modPath+"/")
}

func loadProg(repo string, patterns []string) (*Prog, error) {
	cfg := &packages.Config{
		Mode: packages.NeedName | packages.NeedFiles | packages.NeedCompiledGoFiles | packages.NeedImports |
			packages.NeedDeps | packages.NeedTypes | packages.NeedSyntax | packages.NeedTypesInfo | packages.NeedTypesSizes | packages.NeedModule,
		Dir:        repo,
		BuildFlags: []string{"-tags=verif"},
		Env: append(os.Environ(), "GOFLAGS=-mod=mod", "GOPROXY=off", "GOSUMDB=off", "GOTOOLCHAIN=local",
			"CGO_ENABLED=0"),
		Tests: false,
	}
	pkgs, err := packages.Load(cfg, patterns...)
	if err != nil {
		return nil, err
	}
	nerr := 0
	packages.Visit(pkgs, nil, func(p *packages.Package) {
		for _, e := range p.Errors {
			if inRepo(p.PkgPath) {
				fmt.Fprintf(os.Stderr, "load error in %s: %v\n", p.PkgPath, e)
				nerr++
			}
		}
	})
	if nerr > 0 {
		return nil, fmt.Errorf("%d load errors in repository packages", nerr)
	}
	prog, _ := ssautil.AllPackages(pkgs, ssa.NaiveForm|ssa.BareInits)
	prog.Build()
	p := &Prog{Fset: prog.Fset, Pkgs: pkgs, SSA: prog, Funcs: map[string]*ssa.Function{}, RepoDir: repo,
		AllPkgs: map[string]*packages.Package{}, implCache: map[string][]*ssa.Function{}}
	packages.Visit(pkgs, nil, func(pk *packages.Package) { p.AllPkgs[pk.PkgPath] = pk })
	for fn := range ssautil.AllFunctions(prog) {
		if fn == nil {
			continue
		}
		p.AllFuncs = append(p.AllFuncs, fn)
	}
	sort.Slice(p.AllFuncs, func(i, j int) bool {
		a, b := p.AllFuncs[i], p.AllFuncs[j]
		if a.String() != b.String() {
			return a.String() < b.String()
		}
		return a.Pos() < b.Pos()
	})
	for _, fn := range p.AllFuncs {
		name := fn.String()
		if old, ok := p.Funcs[name]; ok {
			// prefer the one with a body / non-synthetic
			if old.Blocks != nil && old.Synthetic == "" {
				continue
			}
		}
		p.Funcs[name] = fn
	}
	for _, pk := range p.AllPkgs {
		if pk.Types == nil {
			continue
		}
		sc := pk.Types.Scope()
		for _, n := range sc.Names() {
			if tn, ok := sc.Lookup(n).(*types.TypeName); ok && !tn.IsAlias() {
				if nt, ok := tn.Type().(*types.Named); ok {
					p.namedTypes = append(p.namedTypes, nt)
				}
			}
		}
	}
	sort.Slice(p.namedTypes, func(i, j int) bool { return p.namedTypes[i].String() < p.namedTypes[j].String() })
	p.scanGlobals()
	p.scanEscapingFields()
	return p, nil
}

// scanGlobals classifies package level variables: a global that is only ever stored in package
// initialisers of its own package is immutable after init. Globals outside the repository are
// assumed immutable (io.EOF and friends) – listed as an assumption.
func (p *Prog) scanGlobals() {
	p.immutableGlobals = map[*ssa.Global]bool{}
	p.mutableGlobals = map[*ssa.Global]bool{}
	p.errInitNew = map[*ssa.Global]bool{}
	for _, fn := range p.AllFuncs {
		isInit := fn.Name() == "init" || strings.HasPrefix(fn.Name(), "init#")
		for _, b := range fn.Blocks {
			for _, ins := range b.Instrs {
				st, ok := ins.(*ssa.Store)
				if ok {
					if g, ok := st.Addr.(*ssa.Global); ok {
						if !isInit || g.Pkg != fn.Pkg {
							p.mutableGlobals[g] = true
						} else if c, ok := st.Val.(*ssa.Call); ok {
							if cal := c.Call.StaticCallee(); cal != nil {
								s := cal.String()
								if s == "errors.New" || s == "fmt.Errorf" {
									p.errInitNew[g] = true
								}
							}
						}
						continue
					}
				}
				// any other use of a global address (passed to a call, stored) makes it mutable
				for _, op := range ins.Operands(nil) {
					if op == nil || *op == nil {
						continue
					}
					if g, ok := (*op).(*ssa.Global); ok {
						switch x := ins.(type) {
						case *ssa.UnOp:
							_ = x // load
						case *ssa.Store:
							if x.Addr != g {
								p.mutableGlobals[g] = true
							}
						case *ssa.FieldAddr, *ssa.IndexAddr:
							// address of a part: be conservative unless only loaded – treat as mutable
							p.mutableGlobals[g] = true
						default:
							p.mutableGlobals[g] = true
						}
					}
				}
			}
		}
	}
}

func (p *Prog) globalImmutable(g *ssa.Global) bool {
	if g.Pkg == nil {
		return false
	}
	if !inRepo(g.Pkg.Pkg.Path()) {
		// stdlib / dependency globals: only error sentinels and similar are treated as constants
		if _, ok := g.Type().(*types.Pointer).Elem().Underlying().(*types.Interface); ok {
			return true
		}
		return false
	}
	return !p.mutableGlobals[g]
}

// scanEscapingFields finds scalar struct fields whose address is used other than as the address
// operand of a load or store (so it may be dereferenced through a plain pointer elsewhere).
func (p *Prog) scanEscapingFields() {
	p.escField = map[string]bool{}
	for _, fn := range p.AllFuncs {
		if fn.Pkg == nil || !inRepo(fn.Pkg.Pkg.Path()) {
			continue
		}
		for _, b := range fn.Blocks {
			for _, ins := range b.Instrs {
				fa, ok := ins.(*ssa.FieldAddr)
				if !ok {
					continue
				}
				ft := fa.Type().(*types.Pointer).Elem()
				if _, isStruct := ft.Underlying().(*types.Struct); isStruct {
					continue
				}
				refs := fa.Referrers()
				if refs == nil {
					continue
				}
				for _, r := range *refs {
					switch x := r.(type) {
					case *ssa.UnOp:
						continue
					case *ssa.Store:
						if x.Addr == fa && x.Val != fa {
							continue
						}
					case *ssa.DebugRef:
						continue
					case *ssa.IndexAddr:
						// &x.arr[i] on array-typed field: element addressing, handled structurally
						continue
					}
					st := fa.X.Type().Underlying().(*types.Pointer).Elem()
					p.escField[fieldKey(st, fa.Field)] = true
				}
			}
		}
	}
}

func fieldKey(structType types.Type, idx int) string {
	st := structType.Underlying().(*types.Struct)
	return typeKey(structType) + "." + st.Field(idx).Name()
}

// typeKey is a stable printable key for a type.
func typeKey(t types.Type) string {
	s := types.TypeString(t, func(p *types.Package) string { return p.Path() })
	if strings.Contains(s, "byte") || strings.Contains(s, "rune") {
		s = byteRE.ReplaceAllString(s, "${1}uint8")
		s = runeRE.ReplaceAllString(s, "${1}int32")
	}
	return s
}

var byteRE = regexp.MustCompile(`(^|[^.\w])byte\b`)
var runeRE = regexp.MustCompile(`(^|[^.\w])rune\b`)

// lookupFunc resolves a function name as written in a contract file. rel is the package path the
// contract file belongs to ("" for /verif/specs).
func (p *Prog) lookupFunc(name, rel string) *ssa.Function {
	cands := []string{name}
	if rel != "" {
		// (*T).M -> (*rel.T).M ; T.M -> (rel.T).M ; f -> rel.f
		if strings.HasPrefix(name, "(*") {
			cands = append(cands, "(*"+rel+"."+name[2:])
		} else if strings.HasPrefix(name, "(") {
			cands = append(cands, "("+rel+"."+name[1:])
		} else if i := strings.Index(name, "."); i > 0 && !strings.Contains(name[:i], "/") {
			cands = append(cands, "("+rel+"."+name[:i]+")"+name[i:])
			cands = append(cands, rel+"."+name)
		} else {
			cands = append(cands, rel+"."+name)
		}
	}
	// closure suffix: f$1
	for _, c := range cands {
		if fn, ok := p.Funcs[c]; ok {
			return fn
		}
	}
	// allow module-relative "scheme/reg.(*Reg).BlobPut" style
	if strings.Contains(name, "/") || strings.Contains(name, ".") {
		c := expandModRel(name)
		if fn, ok := p.Funcs[c]; ok {
			return fn
		}
	}
	return nil
}

// expandModRel turns "~/scheme/reg.X" style names into full import paths; "~" is the module path.
func expandModRel(name string) string {
	return strings.ReplaceAll(name, "~", modPath)
}

func (p *Prog) pos(pos token.Pos) string {
	if !pos.IsValid() {
		return "?"
	}
	ps := p.Fset.Position(pos)
	f := ps.Filename
	if strings.HasPrefix(f, p.RepoDir+"/") {
		f = f[len(p.RepoDir)+1:]
	}
	return fmt.Sprintf("%s:%d", f, ps.Line)
}
