package main

import (
	"fmt"
	"go/token"
	"go/types"
	"strings"

	"golang.org/x/tools/go/ssa"
)

func deref(t types.Type) types.Type {
	if p, ok := t.Underlying().(*types.Pointer); ok {
		return p.Elem()
	}
	return t
}

func (x *Exec) newObj() string {
	x.objCtr++
	return fmt.Sprintf("(pobj (- %d))", x.objCtr)
}

func (x *Exec) execInstr(fr *Frame, st *State, ins ssa.Instruction) {
	switch t := ins.(type) {
	case *ssa.DebugRef:
	case *ssa.Alloc:
		et := deref(t.Type())
		if !t.Heap {
			if _, isArr := et.Underlying().(*types.Array); !isArr {
				st.cells[t] = x.vc.zero(et)
				fr.laddr[t] = &LAddr{alloc: t}
				return
			}
		}
		p := x.newObj()
		fr.vals[t] = p
		if arr, isArr := et.Underlying().(*types.Array); isArr {
			x.vc.assert(fmt.Sprintf("(= (arrid %s) (- %d))", p, x.objCtr))
			_ = arr
			return
		}
		x.store(st, et, p, x.vc.zero(et))
		if !allocEscapes(t) {
			x.liveObjs = append(x.liveObjs, liveObj{ptr: p, typ: et, owner: fr.fn, alloc: t})
		}
	case *ssa.Store:
		v := x.val(fr, st, t.Val)
		x.storeTo(fr, st, t.Addr, t.Val.Type(), v)
	case *ssa.UnOp:
		fr.vals[t] = x.unop(fr, st, t)
	case *ssa.BinOp:
		fr.vals[t] = x.binop(fr, st, t)
	case *ssa.FieldAddr:
		if la, ok := fr.laddr[t.X]; ok && la != nil {
			fr.laddr[t] = &LAddr{alloc: la.alloc, path: append(append([]int(nil), la.path...), t.Field)}
			return
		}
		base := x.val(fr, st, t.X)
		x.nilCheck(fr, st, base, t.Pos())
		fr.vals[t] = fmt.Sprintf("(pfld %s %d)", base, x.vc.fieldID(deref(t.X.Type()), t.Field))
	case *ssa.Field:
		fr.vals[t] = x.vc.define("fld", x.vc.sortOf(t.Type()), x.vc.fieldOf(t.X.Type(), t.Field, x.val(fr, st, t.X)))
	case *ssa.IndexAddr:
		idx := x.val(fr, st, t.Index)
		switch xt := t.X.Type().Underlying().(type) {
		case *types.Slice:
			s := x.val(fr, st, t.X)
			x.boundsCheck(fr, st, idx, fmt.Sprintf("(sl_len %s)", s), t.Pos())
			fr.vals[t] = fmt.Sprintf("(pelem (sl_arr %s) (+ (sl_off %s) %s))", s, s, idx)
		case *types.Pointer:
			if la, ok := fr.laddr[t.X]; ok && la != nil {
				x.unsupp("index into local array in %s", shortFn(fr.fn))
				fr.vals[t] = x.vc.freshConst("laddr", "Ptr")
				return
			}
			p := x.val(fr, st, t.X)
			if arr, ok := xt.Elem().Underlying().(*types.Array); ok {
				x.boundsCheck(fr, st, idx, fmt.Sprintf("%d", arr.Len()), t.Pos())
			}
			fr.vals[t] = fmt.Sprintf("(pelem (arrid %s) %s)", p, idx)
		default:
			fr.vals[t] = x.vc.freshConst("idxaddr", "Ptr")
		}
	case *ssa.Index:
		switch t.X.Type().Underlying().(type) {
		case *types.Array:
			fr.vals[t] = fmt.Sprintf("(select %s %s)", x.val(fr, st, t.X), x.val(fr, st, t.Index))
		default:
			fr.vals[t] = x.freshOfType(st, "index", t.Type())
		}
	case *ssa.Slice:
		fr.vals[t] = x.sliceOp(fr, st, t)
	case *ssa.MakeSlice:
		x.objCtr++
		l := x.val(fr, st, t.Len)
		c := x.val(fr, st, t.Cap)
		fr.vals[t] = x.vc.define("mkslice", "Slice", fmt.Sprintf("(mk_slice (- %d) 0 %s %s)", x.objCtr, l, c))
		x.assume(st, fmt.Sprintf("(and (<= 0 %s) (<= %s %s))", l, l, c))
		// make zeroes the elements (non-struct element types: one cell memory)
		if et := t.Type().Underlying().(*types.Slice).Elem(); et != nil {
			if _, isStruct := et.Underlying().(*types.Struct); !isStruct {
				if _, isArr := et.Underlying().(*types.Array); !isArr {
					key := cellMemKey(et)
					m := x.memGet(st, key, x.fieldArraySort(et))
					x.memType[key] = et
					q := x.vc.fresh("q_z")
					x.assume(st, fmt.Sprintf("(forall ((%s Int)) (= (select %s (pelem (- %d) %s)) %s))", q, m, x.objCtr, q, x.vc.zero(et)))
				}
			}
		}
	case *ssa.MakeMap:
		x.objCtr++
		id := fmt.Sprintf("(- %d)", x.objCtr)
		fr.vals[t] = id
		mt := t.Type()
		ks, _ := x.mapSorts(mt)
		hk, hs, hm := x.mapHas(st, mt)
		x.setMem(st, hk, hs, fmt.Sprintf("(store %s %s ((as const (Array %s Bool)) false))", hm, id, ks))
		lk, ls, lm := x.mapLen(st, mt)
		x.setMem(st, lk, ls, fmt.Sprintf("(store %s %s 0)", lm, id))
	case *ssa.MakeChan:
		x.objCtr++
		fr.vals[t] = fmt.Sprintf("(- %d)", x.objCtr)
	case *ssa.MakeClosure:
		x.closureRequires(fr, st, t)
		n := x.vc.freshConst("clo", "Fn")
		x.vc.assert(fmt.Sprintf("(not (= %s fn_nil))", n))
		ci := &closureInfo{fn: t.Fn.(*ssa.Function)}
		for _, b := range t.Bindings {
			if la, ok := fr.laddr[b]; ok && la != nil {
				x.unsupp("closure captures non-heap local %s in %s", la.alloc.Comment, shortFn(fr.fn))
			}
			ci.bindings = append(ci.bindings, x.val(fr, st, b))
		}
		x.closures[n] = ci
		fr.vals[t] = n
	case *ssa.MakeInterface:
		fr.vals[t] = x.makeIface(st, t.X.Type(), x.val(fr, st, t.X))
	case *ssa.ChangeInterface:
		fr.vals[t] = x.val(fr, st, t.X)
	case *ssa.ChangeType:
		if la, ok := fr.laddr[t.X]; ok && la != nil {
			fr.laddr[t] = la
			return
		}
		fr.vals[t] = x.val(fr, st, t.X)
	case *ssa.Convert:
		fr.vals[t] = x.convert(fr, st, t)
	case *ssa.TypeAssert:
		x.typeAssert(fr, st, t)
	case *ssa.Extract:
		tup := fr.tuples[t.Tuple]
		if t.Index < len(tup) {
			fr.vals[t] = tup[t.Index]
		} else {
			fr.vals[t] = x.freshOfType(st, "extract", t.Type())
		}
	case *ssa.Lookup:
		x.lookup(fr, st, t)
	case *ssa.MapUpdate:
		mt := t.Map.Type()
		m := x.val(fr, st, t.Map)
		k := x.val(fr, st, t.Key)
		v := x.val(fr, st, t.Value)
		x.assume(st, fmt.Sprintf("(not (= %s 0))", m)) // assignment to an entry of a nil map panics
		if len(x.db.FieldWrites) > 0 {
			mtt := mt.Underlying().(*types.Map)
			x.checkAccessContracts(fr, st, "map", typeKey(mt.Underlying()), "", map[string]specVal{
				"k":      {term: k, typ: mtt.Key()},
				"v":      {term: v, typ: mtt.Elem()},
				"update": {term: "true", typ: tBool},
			})
		}
		// statement hook: on-call mapupdate:<field> for m.<field>[k] = v (k, v bound)
		if hc := x.hookContract(fr); hc != nil && len(hc.OnCall) > 0 {
			if u, ok := t.Map.(*ssa.UnOp); ok && u.Op == token.MUL {
				if fa, ok := u.X.(*ssa.FieldAddr); ok {
					if stt, ok := deref(fa.X.Type()).Underlying().(*types.Struct); ok {
						if effs, ok := hc.OnCall["mapupdate:"+stt.Field(fa.Field).Name()]; ok {
							mtt := mt.Underlying().(*types.Map)
							x.applyGhostEffects(fr, st, effs, "true", map[string]specVal{"k": {term: k, typ: mtt.Key()}, "v": {term: v, typ: mtt.Elem()}})
						}
					}
				}
			}
		}
		hk, hs, hm := x.mapHas(st, mt)
		vk, vs, vm := x.mapVal(st, mt)
		lk, ls, lm := x.mapLen(st, mt)
		had := fmt.Sprintf("(select (select %s %s) %s)", hm, m, k)
		x.setMem(st, lk, ls, fmt.Sprintf("(store %s %s (ite %s (select %s %s) (+ (select %s %s) 1)))", lm, m, had, lm, m, lm, m))
		x.setMem(st, hk, hs, fmt.Sprintf("(store %s %s (store (select %s %s) %s true))", hm, m, hm, m, k))
		x.setMem(st, vk, vs, fmt.Sprintf("(store %s %s (store (select %s %s) %s %s))", vm, m, vm, m, k, v))
	case *ssa.Range:
		fr.vals[t] = x.vc.freshConst("iter", "Any")
	case *ssa.Next:
		x.next(fr, st, t)
	case *ssa.Select:
		x.selectInstr(fr, st, t)
	case *ssa.Send:
		if hc := x.hookContract(fr); hc != nil && hc.OnSend != nil {
			if effs, ok := hc.OnSend[chanVarName(t.Chan)]; ok {
				x.applyGhostEffects(fr, st, effs, "true", map[string]specVal{"v": {term: x.val(fr, st, t.X), typ: t.X.Type()}})
			}
		}
	case *ssa.Go:
		x.goStmt(fr, st, t)
	case *ssa.Defer:
		fr.defers = append(fr.defers, t)
		st.dflags[t] = "true"
		if hc := x.hookContract(fr); hc != nil && len(hc.OnDefer) > 0 {
			if effs, ok := hc.OnDefer[dynCallName(t.Common())]; ok {
				x.applyGhostEffects(fr, st, effs, "true", nil)
			}
		}
	case *ssa.RunDefers:
		x.runDefers(fr, st)
	case *ssa.Call:
		res := x.call(fr, st, t)
		if t.Type() != nil {
			if tup, ok := t.Type().(*types.Tuple); ok {
				if tup.Len() > 0 {
					fr.tuples[t] = res
				}
			} else if len(res) == 1 {
				fr.vals[t] = res[0]
			}
		}
	case *ssa.SliceToArrayPointer, *ssa.MultiConvert:
		fr.vals[ins.(ssa.Value)] = x.freshOfType(st, "conv", ins.(ssa.Value).Type())
	default:
		if v, ok := ins.(ssa.Value); ok {
			fr.vals[v] = x.freshOfType(st, "unk", v.Type())
		}
		x.unsupp("instruction %T in %s", ins, shortFn(fr.fn))
	}
}

func (x *Exec) nilCheck(fr *Frame, st *State, p string, pos token.Pos) {
	if p == "pnull" {
		st.reach = "false"
		return
	}
	// continuing past a dereference means the pointer was not nil (a nil dereference panics)
	if strings.HasPrefix(p, "(pobj ") || strings.HasPrefix(p, "(pfld ") || strings.HasPrefix(p, "(pelem ") || strings.HasPrefix(p, "(pglob ") {
		return
	}
	x.assume(st, fmt.Sprintf("(not (= %s pnull))", p))
}

func (x *Exec) boundsCheck(fr *Frame, st *State, idx, length string, pos token.Pos) {
	cond := fmt.Sprintf("(and (<= 0 %s) (< %s %s))", idx, idx, length)
	if x.safetyOn && fr.depth == 0 {
		x.callCount["bounds"]++
		x.addObl(st, "bounds", fmt.Sprintf("%s/bounds#%d", shortFn(x.top), x.callCount["bounds"]), cond, x.p.pos(pos), "index in range")
	}
	x.assume(st, cond)
}

func (x *Exec) storeTo(fr *Frame, st *State, addr ssa.Value, vt types.Type, v string) {
	if la, ok := fr.laddr[addr]; ok && la != nil {
		x.cellWrite(st, la, v)
		return
	}
	et := deref(addr.Type())
	if ia, ok := addr.(*ssa.IndexAddr); ok && len(x.db.FieldWrites) > 0 {
		x.checkAccessContracts(fr, st, "elem", typeKey(et), "", map[string]specVal{
			"v":   {term: v, typ: et},
			"idx": {term: x.val(fr, st, ia.Index), typ: tInt},
		})
	}
	if fa, ok := addr.(*ssa.FieldAddr); ok {
		if _, known := fr.laddr[fa.X]; !known {
			base := x.val(fr, st, fa.X)
			x.nilCheck(fr, st, base, fa.Pos())
			x.checkFieldGuards(fr, st, deref(fa.X.Type()), fa.Field, base, v)
			x.storeField(st, deref(fa.X.Type()), fa.Field, base, v)
			return
		}
	}
	if g, ok := addr.(*ssa.Global); ok {
		_ = g
	}
	p := x.val(fr, st, addr)
	x.nilCheck(fr, st, p, addr.Pos())
	x.store(st, et, p, v)
}

func (x *Exec) loadFrom(fr *Frame, st *State, addr ssa.Value) string {
	if la, ok := fr.laddr[addr]; ok && la != nil {
		return x.cellRead(st, la)
	}
	// a captured variable that is never written after its single initialisation reads the same
	// everywhere in the closure, whatever is called in between
	if fv, ok := addr.(*ssa.FreeVar); ok && fr.depth == 0 && fr.fn.Parent() != nil {
		if x.immCap == nil {
			x.immCap = map[*ssa.FreeVar]string{}
		}
		if t, known := x.immCap[fv]; known {
			if t != "" {
				return t
			}
		} else if immutableCapture(fr.fn, fv, 0) {
			et := deref(fv.Type())
			t := x.vc.define("cap_"+sanitize(fv.Name()), x.vc.sortOf(et), x.load(st, et, x.val(fr, st, addr)))
			x.immCap[fv] = t
			return t
		} else {
			x.immCap[fv] = ""
		}
	}
	et := deref(addr.Type())
	if g, ok := addr.(*ssa.Global); ok && x.p.globalImmutable(g) {
		return x.globalConst(g)
	}
	if fa, ok := addr.(*ssa.FieldAddr); ok {
		// a field of an immutable captured struct variable: a projection of the captured value
		if fv, isFV := fa.X.(*ssa.FreeVar); isFV && fr.depth == 0 && fr.fn.Parent() != nil {
			if _, isStruct := deref(fv.Type()).Underlying().(*types.Struct); isStruct {
				if whole := x.loadFrom(fr, st, fv); x.immCap[fv] != "" {
					return x.vc.define("capfld", x.vc.sortOf(et), x.vc.fieldOf(deref(fv.Type()), fa.Field, whole))
				}
			}
		}
		if _, known := fr.laddr[fa.X]; !known {
			base := x.val(fr, st, fa.X)
			x.nilCheck(fr, st, base, fa.Pos())
			return x.loadField(st, deref(fa.X.Type()), fa.Field, base)
		}
	}
	p := x.val(fr, st, addr)
	x.nilCheck(fr, st, p, addr.Pos())
	return x.load(st, et, p)
}

// globalConst: the value of an immutable package-level variable, as a constant symbol.
func (x *Exec) globalConst(g *ssa.Global) string {
	et := deref(g.Type())
	n := "glob_" + sanitize(g.String())
	if x.vc.declared[n] {
		return x.vc.declared2[n]
	}
	x.vc.declared[n] = true
	srt := x.vc.sortOf(et)
	term := n
	if srt == "Iface" && (x.p.errInitNew[g] || !inRepo(g.Pkg.Pkg.Path())) {
		// error sentinel: a distinct non-nil boxed pointer
		term = fmt.Sprintf("(ibox %d (pay_ptr (pglob %d)))", x.vc.typeTag(types.Typ[types.UnsafePointer]), x.vc.globID(g.String()))
	} else {
		x.vc.decl(fmt.Sprintf("(declare-const %s %s)", n, srt))
	}
	if x.vc.declared2 == nil {
		x.vc.declared2 = map[string]string{}
	}
	x.vc.declared2[n] = term
	return term
}

func (x *Exec) unop(fr *Frame, st *State, t *ssa.UnOp) string {
	switch t.Op {
	case token.MUL:
		v := x.loadFrom(fr, st, t.X)
		srt := x.vc.sortOf(t.Type())
		v = x.vc.define("ld", srt, v)
		if (x.overflowOn && srt == "Int") || srt == "Slice" {
			x.wf(st, t.Type(), v, "load")
		}
		x.notFuture(st, t.Type(), v, 0)
		return v
	case token.NOT:
		return not(x.val(fr, st, t.X))
	case token.SUB:
		if x.vc.sortOf(t.Type()) == "Int" {
			return fmt.Sprintf("(- %s)", x.val(fr, st, t.X))
		}
	case token.ARROW:
		if t.CommaOk {
			vt := t.Type().(*types.Tuple).At(0).Type()
			v := x.freshOfType(st, "recv", vt)
			ok := x.vc.freshConst("recvok", "Bool")
			fr.tuples[t] = []string{v, ok}
			x.recvEffects(fr, st, t.X, v, vt, "true")
			return ""
		}
		v := x.freshOfType(st, "recv", t.Type())
		x.recvEffects(fr, st, t.X, v, t.Type(), "true")
		return v
	}
	return x.freshOfType(st, "unop", t.Type())
}

func (x *Exec) binop(fr *Frame, st *State, t *ssa.BinOp) string {
	a := x.val(fr, st, t.X)
	b := x.val(fr, st, t.Y)
	srt := x.vc.sortOf(t.X.Type())
	switch t.Op {
	case token.EQL:
		return eq(a, b)
	case token.NEQ:
		return not(eq(a, b))
	}
	switch srt {
	case "Int":
		var r string
		switch t.Op {
		case token.ADD:
			r = fmt.Sprintf("(+ %s %s)", a, b)
		case token.SUB:
			r = fmt.Sprintf("(- %s %s)", a, b)
		case token.MUL:
			r = fmt.Sprintf("(* %s %s)", a, b)
		case token.QUO:
			x.assume(st, fmt.Sprintf("(not (= %s 0))", b))
			return x.vc.define("quo", "Int", goDiv(a, b))
		case token.REM:
			x.assume(st, fmt.Sprintf("(not (= %s 0))", b))
			return x.vc.define("rem", "Int", fmt.Sprintf("(- %s (* %s %s))", a, b, goDiv(a, b)))
		case token.LSS:
			return fmt.Sprintf("(< %s %s)", a, b)
		case token.LEQ:
			return fmt.Sprintf("(<= %s %s)", a, b)
		case token.GTR:
			return fmt.Sprintf("(> %s %s)", a, b)
		case token.GEQ:
			return fmt.Sprintf("(>= %s %s)", a, b)
		case token.SHL:
			r = x.shl(st, a, b, t)
			x.overflowCheck(fr, st, t, r)
			return r
		case token.SHR:
			if c, ok := t.Y.(*ssa.Const); ok && c.Value != nil {
				if k, ok := constInt(c); ok && k >= 0 && k < 63 {
					return x.vc.define("shr", "Int", fmt.Sprintf("(div %s %d)", a, int64(1)<<uint(k)))
				}
			}
			// symbolic count: r = floor(a / 2^b) for a >= 0, 0 <= b <= 63 (stated through products
			// so that no division by a symbolic term is needed)
			x.needPow2()
			r := x.freshOfType(st, "shr", t.Type())
			x.assume(st, fmt.Sprintf("(=> (and (>= %s 0) (<= 0 %s) (<= %s 63)) (and (<= (* %s (pow2 %s)) %s) (< %s (* (+ %s 1) (pow2 %s))) (>= %s 0)))", a, b, b, r, b, a, a, r, b, r))
			return r
		case token.AND, token.OR, token.XOR, token.AND_NOT:
			f := x.vc.ufun("bitop_"+map[token.Token]string{token.AND: "and", token.OR: "or", token.XOR: "xor", token.AND_NOT: "andnot"}[t.Op], []string{"Int", "Int"}, "Int")
			r := fmt.Sprintf("(%s %s %s)", f, a, b)
			x.assume(st, typeRange(t.Type(), r))
			return r
		}
		if r != "" {
			r = x.vc.define("ar", "Int", r)
			x.overflowCheck(fr, st, t, r)
			return r
		}
	case "Str":
		switch t.Op {
		case token.ADD:
			return x.vc.define("cat", "Str", fmt.Sprintf("(str_cat %s %s)", a, b))
		case token.LSS:
			return fmt.Sprintf("(str_lt %s %s)", a, b)
		case token.GTR:
			return fmt.Sprintf("(str_lt %s %s)", b, a)
		case token.LEQ:
			return fmt.Sprintf("(not (str_lt %s %s))", b, a)
		case token.GEQ:
			return fmt.Sprintf("(not (str_lt %s %s))", a, b)
		}
	case "Float":
		switch t.Op {
		case token.LSS, token.LEQ, token.GTR, token.GEQ:
			f := x.vc.ufun("fcmp_"+map[token.Token]string{token.LSS: "lt", token.LEQ: "le", token.GTR: "gt", token.GEQ: "ge"}[t.Op], []string{"Float", "Float"}, "Bool")
			return fmt.Sprintf("(%s %s %s)", f, a, b)
		default:
			f := x.vc.ufun("fop_"+sanitize(t.Op.String()), []string{"Float", "Float"}, "Float")
			return fmt.Sprintf("(%s %s %s)", f, a, b)
		}
	}
	return x.freshOfType(st, "binop", t.Type())
}

func goDiv(a, b string) string {
	return fmt.Sprintf("(ite (>= %s 0) (ite (> %s 0) (div %s %s) (- (div %s (- %s)))) (ite (> %s 0) (- (div (- %s) %s)) (div (- %s) (- %s))))", a, b, a, b, a, b, b, a, b, a, b)
}

func constInt(c *ssa.Const) (int64, bool) {
	if c.Value == nil {
		return 0, false
	}
	return c.Int64(), true
}

func (x *Exec) shl(st *State, a, b string, t *ssa.BinOp) string {
	if c, ok := t.Y.(*ssa.Const); ok {
		if k, ok := constInt(c); ok && k >= 0 && k < 63 {
			r := x.vc.define("shl", "Int", fmt.Sprintf("(* %s %d)", a, int64(1)<<uint(k)))
			return r
		}
	}
	// symbolic shift count: x * 2^k for 0 <= k <= 63; beyond 63 the machine result is 0
	x.needPow2()
	r := x.vc.define("shl", "Int", fmt.Sprintf("(ite (and (<= 0 %s) (<= %s 63)) (* %s (pow2 %s)) 0)", b, b, a, b))
	return r
}

func (x *Exec) needPow2() {
	x.vc.ufun("pow2", []string{"Int"}, "Int")
	if !x.vc.declared["pow2ax"] {
		x.vc.declared["pow2ax"] = true
		v := int64(1)
		for k := 0; k <= 62; k++ {
			x.vc.assert(fmt.Sprintf("(= (pow2 %d) %d)", k, v))
			v *= 2
		}
		x.vc.assert("(= (pow2 63) 9223372036854775808)")
		x.vc.assert("(forall ((k Int)) (! (=> (and (<= 0 k) (<= k 63)) (>= (pow2 k) 1)) :pattern ((pow2 k))))")
		x.vc.assert("(forall ((k Int)) (! (=> (and (<= 1 k) (<= k 63)) (>= (pow2 k) 2)) :pattern ((pow2 k))))")
	}
}

func (x *Exec) overflowCheck(fr *Frame, st *State, t *ssa.BinOp, r string) {
	if !x.overflowOn || fr.depth != 0 {
		return
	}
	rng := typeRange(t.Type(), r)
	if rng == "true" {
		return
	}
	x.callCount["overflow"]++
	x.addObl(st, "overflow", fmt.Sprintf("%s/overflow:%s#%d", shortFn(x.top), opName(t.Op), x.callCount["overflow"]), rng, x.p.pos(t.Pos()), "no overflow in "+t.String())
	x.assume(st, rng)
}

func opName(op token.Token) string {
	switch op {
	case token.ADD:
		return "add"
	case token.SUB:
		return "sub"
	case token.MUL:
		return "mul"
	case token.SHL:
		return "shl"
	}
	return sanitize(op.String())
}

func (x *Exec) sliceOp(fr *Frame, st *State, t *ssa.Slice) string {
	var low, high, max string
	if t.Low != nil {
		low = x.val(fr, st, t.Low)
	} else {
		low = "0"
	}
	switch xt := t.X.Type().Underlying().(type) {
	case *types.Slice:
		s := x.val(fr, st, t.X)
		if t.High != nil {
			high = x.val(fr, st, t.High)
		} else {
			high = fmt.Sprintf("(sl_len %s)", s)
		}
		if t.Max != nil {
			max = x.val(fr, st, t.Max)
		} else {
			max = fmt.Sprintf("(sl_cap %s)", s)
		}
		cond := fmt.Sprintf("(and (<= 0 %s) (<= %s %s) (<= %s %s) (<= %s (sl_cap %s)))", low, low, high, high, max, max, s)
		if x.safetyOn && fr.depth == 0 {
			x.callCount["bounds"]++
			x.addObl(st, "bounds", fmt.Sprintf("%s/slice-bounds#%d", shortFn(x.top), x.callCount["bounds"]), cond, x.p.pos(t.Pos()), "slice bounds in range")
		}
		x.assume(st, cond)
		return x.vc.define("sl", "Slice", fmt.Sprintf("(mk_slice (sl_arr %s) (+ (sl_off %s) %s) (- %s %s) (- %s %s))", s, s, low, high, low, max, low))
	case *types.Basic: // string
		s := x.val(fr, st, t.X)
		if t.High != nil {
			high = x.val(fr, st, t.High)
		} else {
			high = fmt.Sprintf("(strlen %s)", s)
		}
		x.assume(st, fmt.Sprintf("(and (<= 0 %s) (<= %s %s) (<= %s (strlen %s)))", low, low, high, high, s))
		r := x.vc.define("substr", "Str", fmt.Sprintf("(str_sub %s %s %s)", s, low, high))
		x.assume(st, fmt.Sprintf("(= (strlen %s) (- %s %s))", r, high, low))
		return r
	case *types.Pointer:
		arr := xt.Elem().Underlying().(*types.Array)
		p := x.val(fr, st, t.X)
		n := fmt.Sprintf("%d", arr.Len())
		if t.High != nil {
			high = x.val(fr, st, t.High)
		} else {
			high = n
		}
		if t.Max != nil {
			max = x.val(fr, st, t.Max)
		} else {
			max = n
		}
		return x.vc.define("sl", "Slice", fmt.Sprintf("(mk_slice (arrid %s) %s (- %s %s) (- %s %s))", p, low, high, low, max, low))
	}
	return x.freshOfType(st, "slice", t.Type())
}

// ---------- interfaces ----------

func (x *Exec) makeIface(st *State, t types.Type, v string) string {
	if _, ok := t.Underlying().(*types.Interface); ok {
		return v
	}
	tag := x.vc.typeTag(t)
	switch x.vc.sortOf(t) {
	case "Ptr":
		return fmt.Sprintf("(ibox %d (pay_ptr %s))", tag, v)
	case "Int":
		return fmt.Sprintf("(ibox %d (pay_int %s))", tag, v)
	case "Str":
		return fmt.Sprintf("(ibox %d (pay_str %s))", tag, v)
	case "Bool":
		return fmt.Sprintf("(ibox %d (pay_bool %s))", tag, v)
	}
	srt := x.vc.sortOf(t)
	box := x.vc.ufun("box_"+sanitize(srt), []string{srt}, "Int")
	unbox := x.vc.ufun("unbox_"+sanitize(srt), []string{"Int"}, srt)
	x.vc.assert(fmt.Sprintf("(= (%s (%s %s)) %s)", unbox, box, v, v))
	return fmt.Sprintf("(ibox %d (pay_opq (%s %s)))", tag, box, v)
}

func (x *Exec) unboxIface(t types.Type, v string) string {
	switch x.vc.sortOf(t) {
	case "Ptr":
		return fmt.Sprintf("(pay_p (ipay %s))", v)
	case "Int":
		return fmt.Sprintf("(pay_i (ipay %s))", v)
	case "Str":
		return fmt.Sprintf("(pay_s (ipay %s))", v)
	case "Bool":
		return fmt.Sprintf("(pay_b (ipay %s))", v)
	}
	srt := x.vc.sortOf(t)
	x.vc.ufun("box_"+sanitize(srt), []string{srt}, "Int")
	unbox := x.vc.ufun("unbox_"+sanitize(srt), []string{"Int"}, srt)
	return fmt.Sprintf("(%s (pay_o (ipay %s)))", unbox, v)
}

func (x *Exec) typeAssert(fr *Frame, st *State, t *ssa.TypeAssert) {
	v := x.val(fr, st, t.X)
	var ok, res string
	if _, isIface := t.AssertedType.Underlying().(*types.Interface); isIface {
		f := x.vc.ufun("implements_"+sanitize(typeKey(t.AssertedType)), []string{"Int"}, "Bool")
		ok = fmt.Sprintf("(and ((_ is ibox) %s) (%s (itag %s)))", v, f, v)
		res = v
		if it := t.AssertedType.Underlying().(*types.Interface); it.NumMethods() == 0 {
			ok = fmt.Sprintf("((_ is ibox) %s)", v)
		}
	} else {
		tag := x.vc.typeTag(t.AssertedType)
		ok = fmt.Sprintf("(and ((_ is ibox) %s) (= (itag %s) %d))", v, v, tag)
		res = x.unboxIface(t.AssertedType, v)
	}
	ok = x.vc.define("taok", "Bool", ok)
	if _, isStruct := t.AssertedType.Underlying().(*types.Struct); isStruct {
		res = x.vc.define("unboxed", x.vc.sortOf(t.AssertedType), res)
		x.notFuture(st, t.AssertedType, res, 0)
	}
	if t.CommaOk {
		zero := x.vc.zero(t.AssertedType)
		fr.tuples[t] = []string{ite(ok, res, zero), ok}
		return
	}
	x.assume(st, ok) // a failed assertion panics
	fr.vals[t] = res
}

func (x *Exec) convert(fr *Frame, st *State, t *ssa.Convert) string {
	v := x.val(fr, st, t.X)
	from := x.vc.sortOf(t.X.Type())
	to := x.vc.sortOf(t.Type())
	switch {
	case from == "Int" && to == "Int":
		// widening/narrowing: identity on values inside the target range
		if x.overflowOn && fr.depth == 0 {
			rng := typeRange(t.Type(), v)
			if !rangeIncludes(t.Type(), t.X.Type()) {
				x.callCount["overflow"]++
				x.addObl(st, "overflow", fmt.Sprintf("%s/overflow:convert#%d", shortFn(x.top), x.callCount["overflow"]), rng, x.p.pos(t.Pos()), "conversion keeps the value: "+t.String())
				x.assume(st, rng)
			}
		}
		return v
	case from == to && from != "Slice":
		return v
	case from == "Str" && to == "Slice":
		// []byte(s): fresh array holding the bytes of s
		x.objCtr++
		sl := x.vc.define("b2s", "Slice", fmt.Sprintf("(mk_slice (- %d) 0 (strlen %s) (strlen %s))", x.objCtr, v, v))
		x.bytesOfAssume(st, sl, v)
		return sl
	case from == "Slice" && to == "Str":
		return x.strOfBytes(st, v)
	case from == "Int" && to == "Float":
		f := x.vc.ufun("i2f", []string{"Int"}, "Float")
		return fmt.Sprintf("(%s %s)", f, v)
	case from == "Float" && to == "Int":
		f := x.vc.ufun("f2i", []string{"Float"}, "Int")
		r := fmt.Sprintf("(%s %s)", f, v)
		x.assume(st, typeRange(t.Type(), r))
		return r
	case from == "Int" && to == "Str":
		f := x.vc.ufun("i2s", []string{"Int"}, "Str")
		return fmt.Sprintf("(%s %s)", f, v)
	}
	return x.freshOfType(st, "conv", t.Type())
}

func rangeIncludes(to, from types.Type) bool {
	tb, ok1 := to.Underlying().(*types.Basic)
	fb, ok2 := from.Underlying().(*types.Basic)
	if !ok1 || !ok2 {
		return false
	}
	w := func(b *types.Basic) (bits int, signed bool) {
		switch b.Kind() {
		case types.Int8:
			return 8, true
		case types.Int16:
			return 16, true
		case types.Int32:
			return 32, true
		case types.Int, types.Int64:
			return 64, true
		case types.Uint8:
			return 8, false
		case types.Uint16:
			return 16, false
		case types.Uint32:
			return 32, false
		case types.Uint, types.Uint64, types.Uintptr:
			return 64, false
		}
		return 64, true
	}
	tbits, ts := w(tb)
	fbits, fs := w(fb)
	if ts == fs {
		return tbits >= fbits
	}
	if ts && !fs {
		return tbits > fbits
	}
	return false
}

// bytes <-> string: the content of a byte slice as an abstract string.
func (x *Exec) strOfBytes(st *State, sl string) string {
	bt := types.Typ[types.Byte]
	key := cellMemKey(bt)
	srt := x.fieldArraySort(bt)
	m := x.memGet(st, key, srt)
	f := x.vc.ufun("str_of_bytes", []string{"Slice", srt}, "Str")
	r := x.vc.define("s_of_b", "Str", fmt.Sprintf("(%s %s %s)", f, sl, m))
	x.assume(st, fmt.Sprintf("(= (strlen %s) (sl_len %s))", r, sl))
	return r
}

func (x *Exec) bytesOfAssume(st *State, sl, s string) {
	bt := types.Typ[types.Byte]
	key := cellMemKey(bt)
	srt := x.fieldArraySort(bt)
	x.memGet(st, key, srt)
	// the fresh array's content is the string: havoc byte memory and relate
	x.havocMem(st, key)
	m := x.memGet(st, key, srt)
	f := x.vc.ufun("str_of_bytes", []string{"Slice", srt}, "Str")
	x.assume(st, fmt.Sprintf("(= (%s %s %s) %s)", f, sl, m, s))
	x.vc.note("[]byte(s) allocates a fresh array; byte memory is havocked and related to s only through str_of_bytes")
}

func (x *Exec) lookup(fr *Frame, st *State, t *ssa.Lookup) {
	if mt, ok := t.X.Type().Underlying().(*types.Map); ok {
		m := x.val(fr, st, t.X)
		k := x.val(fr, st, t.Index)
		if len(x.db.FieldWrites) > 0 {
			x.checkAccessContracts(fr, st, "map", typeKey(t.X.Type().Underlying()), "", map[string]specVal{
				"k":      {term: k, typ: mt.Key()},
				"update": {term: "false", typ: tBool},
			})
		}
		_, _, hm := x.mapHas(st, t.X.Type())
		_, _, vm := x.mapVal(st, t.X.Type())
		has := x.vc.define("has", "Bool", fmt.Sprintf("(select (select %s %s) %s)", hm, m, k))
		// nil map has no entries
		v := x.vc.define("mv", x.vc.sortOf(mt.Elem()), ite(has, fmt.Sprintf("(select (select %s %s) %s)", vm, m, k), x.vc.zero(mt.Elem())))
		x.assume(st, fmt.Sprintf("(=> (= %s 0) (not %s))", m, has))
		if t.CommaOk {
			fr.tuples[t] = []string{v, has}
		} else {
			fr.vals[t] = v
		}
		return
	}
	// string index
	s := x.val(fr, st, t.X)
	i := x.val(fr, st, t.Index)
	x.assume(st, fmt.Sprintf("(and (<= 0 %s) (< %s (strlen %s)))", i, i, s))
	r := fmt.Sprintf("(str_at %s %s)", s, i)
	x.assume(st, fmt.Sprintf("(and (<= 0 %s) (<= %s 255))", r, r))
	fr.vals[t] = r
}

func (x *Exec) next(fr *Frame, st *State, t *ssa.Next) {
	ok := x.vc.freshConst("nextok", "Bool")
	tup := t.Type().(*types.Tuple)
	k := x.freshOfType(st, "nextk", tup.At(1).Type())
	v := x.freshOfType(st, "nextv", tup.At(2).Type())
	if !t.IsString {
		if rng, isRange := t.Iter.(*ssa.Range); isRange {
			if _, isMap := rng.X.Type().Underlying().(*types.Map); isMap {
				m := x.val(fr, st, rng.X)
				_, _, hm := x.mapHas(st, rng.X.Type())
				_, _, vm := x.mapVal(st, rng.X.Type())
				if _, inv := tup.At(1).Type().(*types.Basic); !inv || tup.At(1).Type().(*types.Basic).Kind() != types.Invalid {
					x.assume(st, fmt.Sprintf("(=> %s (select (select %s %s) %s))", ok, hm, m, k))
					if b, isB := tup.At(2).Type().(*types.Basic); !isB || b.Kind() != types.Invalid {
						x.assume(st, fmt.Sprintf("(=> %s (= %s (select (select %s %s) %s)))", ok, v, vm, m, k))
					}
				}
			}
		}
	}
	fr.tuples[t] = []string{ok, k, v}
}

func (x *Exec) selectInstr(fr *Frame, st *State, t *ssa.Select) {
	n := len(t.States)
	idx := x.vc.freshConst("selidx", "Int")
	lo := "0"
	if !t.Blocking {
		lo = "(- 1)"
	}
	x.vc.assert(fmt.Sprintf("(and (<= %s %s) (< %s %d))", lo, idx, idx, n))
	tup := []string{idx, x.vc.freshConst("selok", "Bool")}
	tt := t.Type().(*types.Tuple)
	for i := 2; i < tt.Len(); i++ {
		tup = append(tup, x.freshOfType(st, "selrecv", tt.At(i).Type()))
	}
	fr.tuples[t] = tup
	// receive effects for the case that fires
	ri := 2
	for i, sstate := range t.States {
		if sstate.Dir == types.RecvOnly {
			if ri < len(tup) {
				et := tt.At(ri).Type()
				x.recvEffects(fr, st, sstate.Chan, tup[ri], et, fmt.Sprintf("(= %s %d)", idx, i))
			}
			ri++
		}
	}
}

func (x *Exec) ghostHook(fr *Frame, st *State, kind string, ins ssa.Instruction) {
	// channel operations carry no state in the model; see recvEffects / goEffects
}

// chanVarName: the source variable a channel operand was loaded from.
func chanVarName(v ssa.Value) string {
	if u, ok := v.(*ssa.UnOp); ok {
		if a, ok := u.X.(*ssa.Alloc); ok {
			return a.Comment
		}
		if fv, ok := u.X.(*ssa.FreeVar); ok {
			return fv.Name()
		}
	}
	return ""
}

// applyGhostEffects evaluates the effect expressions sequentially; cond guards the update.
func (x *Exec) applyGhostEffects(fr *Frame, st *State, effs []*EffectSpec, cond string, bind map[string]specVal) {
	for _, ef := range effs {
		env := x.invEnv(fr, st)
		for k, v := range bind {
			env.names[k] = v
		}
		v := x.evalSpec(env, ef.Expr)
		old := x.ghostGet(st, ef.Ghost)
		st.ghost[ef.Ghost] = x.vc.define("ghost_"+ef.Ghost, x.ghostSort(ef.Ghost), ite(cond, v.term, old))
	}
}

func (x *Exec) recvEffects(fr *Frame, st *State, ch ssa.Value, val string, valType types.Type, cond string) {
	hc := x.hookContract(fr)
	if hc == nil || hc.OnRecv == nil {
		return
	}
	if effs, ok := hc.OnRecv[chanVarName(ch)]; ok {
		x.applyGhostEffects(fr, st, effs, cond, map[string]specVal{"v": {term: val, typ: valType}})
	}
	// a channel obtained from a call, e.g. <-ctx.Done(): hook name call:<callee>, recv = the
	// receiver (or first argument) of that call
	if c, isCall := ch.(*ssa.Call); isCall {
		name := ""
		var rv ssa.Value
		if c.Call.IsInvoke() {
			name, rv = c.Call.Method.Name(), c.Call.Value
		} else if f := c.Call.StaticCallee(); f != nil {
			name = f.Name()
			if len(c.Call.Args) > 0 {
				rv = c.Call.Args[0]
			}
		}
		if effs, ok := hc.OnRecv["call:"+name]; ok && name != "" {
			bind := map[string]specVal{"v": {term: val, typ: valType}}
			if rv != nil {
				bind["recv"] = specVal{term: x.val(fr, st, rv), typ: rv.Type()}
			}
			x.applyGhostEffects(fr, st, effs, cond, bind)
		}
	}
}

func (x *Exec) goStmt(fr *Frame, st *State, t *ssa.Go) {
	x.vc.note("go statements: the spawned body is not interleaved; memory it may write is havocked at the spawn point")
	keys := x.p.effects.callEffects(fr.fn, t)
	x.havocKeys(st, keys)
	if hc := x.hookContract(fr); hc != nil && len(hc.OnGo) > 0 {
		var effs []*EffectSpec
		for _, ef := range hc.OnGo {
			if ef.Target == "" || goTargets(t, fr.fn, ef.Target) {
				effs = append(effs, ef)
			}
		}
		x.applyGhostEffects(fr, st, effs, "true", nil)
	}
}

// goTargets: the go statement starts the closure <fn>$suffix (suffix like "$3").
func goTargets(t *ssa.Go, fn *ssa.Function, suffix string) bool {
	var cf *ssa.Function
	if mc, ok := t.Call.Value.(*ssa.MakeClosure); ok {
		cf, _ = mc.Fn.(*ssa.Function)
	} else if f := t.Call.StaticCallee(); f != nil {
		cf = f
	}
	return cf != nil && cf.Name() == fn.Name()+suffix
}

// ---------- defers ----------

func (x *Exec) runDefers(fr *Frame, st *State) {
	for i := len(fr.defers) - 1; i >= 0; i-- {
		d := fr.defers[i]
		flag, ok := st.dflags[d]
		if !ok || flag == "false" {
			continue
		}
		if flag == "true" {
			x.call(fr, st, d)
			continue
		}
		// conditionally registered: execute under the flag and merge
		r := x.reachOf(st)
		st1 := st.clone()
		st1.reach = x.vc.define("r", "Bool", and(r, flag))
		x.call(fr, st1, d)
		st2 := st.clone()
		st2.reach = x.vc.define("r", "Bool", and(r, not(flag)))
		m := x.mergeStates([]*State{st1, st2}, "defer")
		*st = *m
	}
}

// closureRequires: a contract on a closure may state pre-conditions over its captured variables;
// they are proved where the closure is created (MakeClosure), with the values the variables have
// at that moment, and are assumed when the closure body is verified as a unit of its own.
func (x *Exec) closureRequires(fr *Frame, st *State, mc *ssa.MakeClosure) {
	cfn := mc.Fn.(*ssa.Function)
	fc, has := x.db.Funcs[cfn.String()]
	if !has || len(fc.Requires) == 0 || !x.wantObl(fc.Props) || x.mode == "lemma" {
		return
	}
	env := &SpecEnv{x: x, names: map[string]specVal{}, st: st, old: fr.entryOrSelf(st)}
	env.pkg = x.pkgOfContract(fc.Pkg, cfn)
	env.callerFrame = fr
	for i, fv := range cfn.FreeVars {
		if i >= len(mc.Bindings) {
			break
		}
		b := mc.Bindings[i]
		et := deref(fv.Type())
		var term string
		if la, isLocal := fr.laddr[b]; isLocal && la != nil {
			term = x.cellRead(st, la)
		} else {
			term = x.loadFrom(fr, st, b)
		}
		env.names[fv.Name()] = specVal{term: term, typ: et}
	}
	for _, r := range fc.Requires {
		goal := x.evalBool(env, r.Expr)
		x.callCount["closure:"+cfn.String()]++
		name := fmt.Sprintf("%s/requires:%s@closure:%s#%d", shortFn(fr.fn), r.Label, shortFn(cfn), x.callCount["closure:"+cfn.String()])
		x.addObl(st, "requires", name, goal, x.p.pos(mc.Pos()), r.Text)
	}
}
