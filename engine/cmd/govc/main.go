package main

import (
	_ "golang.org/x/tools/go/packages"
	_ "golang.org/x/tools/go/ssa"
	_ "golang.org/x/tools/go/ssa/ssautil"
)

func main() {}
