package main

import (
	"encoding/json"
	"flag"
	"fmt"
	"hash/crc32"
	"os"
	"path/filepath"
	"regexp"
	"runtime/debug"
	"sort"
	"strconv"
	"strings"
	"time"

	"golang.org/x/tools/go/ssa"
)

type KnownFinding struct {
	Property   string `json:"property"`
	Obligation string `json:"obligation"`
	Status     string `json:"status"` // known | fixed
	What       string `json:"what"`
	Commit     string `json:"commit,omitempty"`
	ID         string `json:"id,omitempty"`
}

type options struct {
	prop        string
	tier        string
	repo        string
	verif       string
	only        string
	keep        bool
	evidenceDir string
	verbose     bool
	seed        int
	workers     int
	baseline    bool
	dumpFn      string
}

func main() {
	debug.SetGCPercent(400)
	if len(os.Args) < 2 {
		fmt.Fprintln(os.Stderr, "usage: govc check|baseline|list|replay ...")
		os.Exit(2)
	}
	cmd := os.Args[1]
	fs := flag.NewFlagSet(cmd, flag.ExitOnError)
	var o options
	fs.StringVar(&o.prop, "property", "", "property id")
	fs.StringVar(&o.tier, "tier", "quick", "quick|thorough")
	fs.StringVar(&o.repo, "repo", "/repo", "repository")
	fs.StringVar(&o.verif, "verif", "/verif", "verif dir")
	fs.StringVar(&o.only, "only", "", "regexp on unit names (debug)")
	fs.BoolVar(&o.keep, "keep", false, "keep SMT files")
	fs.StringVar(&o.evidenceDir, "evidence-dir", "", "write the evidence file here instead of <verif>/evidence (self-tests on modified trees)")
	fs.BoolVar(&o.verbose, "v", false, "verbose")
	fs.IntVar(&o.workers, "workers", 6, "parallel solver jobs")
	fs.Parse(os.Args[2:])
	if t := os.Getenv("VERIF_TIER"); t != "" && cmd == "check" {
		o.tier = t
	}
	if s := os.Getenv("VERIF_SEED"); s != "" {
		o.seed, _ = strconv.Atoi(s)
	}
	switch cmd {
	case "check":
		os.Exit(runCheck(&o))
	case "baseline":
		o.baseline = true
		os.Exit(runCheck(&o))
	case "loops":
		// list the loops of a function (ordinal, position) to help write loop contracts
		p, err := loadProg(o.repo, []string{"./..."})
		if err != nil {
			fmt.Fprintln(os.Stderr, err)
			os.Exit(2)
		}
		for _, a := range fs.Args() {
			for name, fn := range p.Funcs {
				if strings.Contains(name, a) && fn.Blocks != nil {
					fmt.Println(name)
					for i, h := range loopHeaders(fn) {
						fmt.Printf("  loop %d at %s\n", i, p.pos(blockPos(h)))
					}
				}
			}
		}
		os.Exit(0)
	case "effects":
		// print the may-write summary of functions (debug aid for frames)
		p, err := loadProg(o.repo, []string{"./..."})
		if err != nil {
			fmt.Fprintln(os.Stderr, err)
			os.Exit(2)
		}
		p.buildEffects()
		for _, a := range fs.Args() {
			for name, fn := range p.Funcs {
				if strings.HasSuffix(name, a) && fn.Blocks != nil {
					ks := p.effects.of(fn)
					sort.Strings(ks)
					fmt.Printf("%s: %d keys\n", name, len(ks))
					for _, k := range ks {
						fmt.Println("   ", k)
					}
				}
			}
		}
		os.Exit(0)
	case "replay":
		os.Exit(runReplay(&o, fs.Args()))
	default:
		fmt.Fprintln(os.Stderr, "unknown command", cmd)
		os.Exit(2)
	}
}

var stemRE = regexp.MustCompile(`~\d+$`)

// oblStem strips the ordinal that distinguishes several instances of one clause (e.g. the back
// edges of a loop): a change that adds a path must not move a claimed clause out of the baseline.
func oblStem(name string) string { return stemRE.ReplaceAllString(name, "") }

type oblReport struct {
	Name    string   `json:"name"`
	Kind    string   `json:"kind"`
	Unit    string   `json:"unit"`
	Pos     string   `json:"pos"`
	Text    string   `json:"clause"`
	Result  string   `json:"result"`
	Solver  string   `json:"solver"`
	Time    float64  `json:"solver_s"`
	Size    int      `json:"smt_bytes"`
	Status  string   `json:"status"`
	Brittle []string `json:"unstable_under_seeds,omitempty"`
}

func loadKnown(verif string) []KnownFinding {
	var kf []KnownFinding
	b, err := os.ReadFile(filepath.Join(verif, "known_findings.json"))
	if err != nil {
		return nil
	}
	if err := json.Unmarshal(b, &kf); err != nil {
		fmt.Fprintln(os.Stderr, "known_findings.json:", err)
	}
	return kf
}

func loadBaseline(verif, prop string) (map[string]bool, bool) {
	b, err := os.ReadFile(filepath.Join(verif, "specs", "baseline", prop+".txt"))
	if err != nil {
		return map[string]bool{}, false
	}
	m := map[string]bool{}
	for _, l := range strings.Split(string(b), "\n") {
		l = strings.TrimSpace(l)
		if l != "" && !strings.HasPrefix(l, "#") {
			m[l] = true
		}
	}
	return m, true
}

func runCheck(o *options) int {
	t0 := time.Now()
	if o.prop == "" {
		fmt.Fprintln(os.Stderr, "--property required")
		return 2
	}
	p, err := loadProg(o.repo, []string{"./..."})
	if err != nil {
		// the tree does not load (e.g. does not compile): the check cannot run
		fmt.Fprintln(os.Stderr, "BROKEN: cannot load repository:", err)
		return 2
	}
	p.buildEffects()
	baselineLocals = map[string][]localRec{}
	if !o.baseline {
		if b, err := os.ReadFile(filepath.Join(o.verif, "specs", "baseline", o.prop+".locals.json")); err == nil {
			json.Unmarshal(b, &baselineLocals)
		}
	}
	db, err := loadContracts(p, filepath.Join(o.verif, "specs"))
	if err != nil {
		fmt.Fprintln(os.Stderr, "BROKEN: contracts:", err)
		return 2
	}
	p.effects.addGhostEffects(db)
	tLoad := time.Since(t0).Seconds()
	var onlyRE *regexp.Regexp
	if o.only != "" {
		onlyRE = regexp.MustCompile(o.only)
	}
	hasProp := func(ps []string) bool {
		for _, x := range ps {
			if x == o.prop {
				return true
			}
		}
		return false
	}
	work := filepath.Join(o.verif, "work", fmt.Sprintf("%s-%d", o.prop, os.Getpid()))
	os.MkdirAll(work, 0o755)
	if !o.keep {
		defer os.RemoveAll(work)
	}
	{
		// candidate invariants matter where the contract's loops are cut: in the contract's own check
		// and in call-site sweeps through its function
		rel := map[*ssa.Function]bool{}
		for _, fn := range sweepTargets(p, db, o.prop) {
			for f := fn; f != nil; f = f.Parent() {
				rel[f] = true
			}
		}
		houdiniNotes = houdini(p, db, o, work, func(fc *FuncContract) bool { return hasProp(fc.Props) || rel[fc.Fn] })
	}
	var units []*Unit
	engineErr := ""
	gen := func(name string, f func() *Unit) {
		if onlyRE != nil && !onlyRE.MatchString(name) {
			return
		}
		defer func() {
			if r := recover(); r != nil {
				engineErr += fmt.Sprintf("engine panic in %s: %v\n%s\n", name, r, debug.Stack())
			}
		}()
		u := f()
		units = append(units, u)
	}
	funcUnits := map[*ssa.Function]bool{}
	for _, fc := range db.FuncList {
		if fc.Extern || !hasProp(fc.Props) {
			continue
		}
		fc := fc
		if fc.Fn != nil {
			funcUnits[fc.Fn] = true
		}
		gen(shortKey(fc.Key), func() *Unit { return verifyFunc(p, db, fc, o.prop) })
	}
	for _, lm := range db.Lemmas {
		if !hasProp(lm.Props) {
			continue
		}
		lm := lm
		gen("lemma:"+lm.Name, func() *Unit { return verifyLemma(p, db, lm, o.prop) })
	}
	for _, w := range db.Writers {
		if !hasProp(w.Props) {
			continue
		}
		w := w
		gen("writers:"+shortKey(w.Key), func() *Unit { return verifyWriters(p, db, w) })
	}
	covered := map[string]bool{}
	for _, u := range units {
		for _, c := range u.Callsites {
			covered[c] = true
		}
	}
	targets := sweepTargets(p, db, o.prop)
	sweepSet := map[*ssa.Function]bool{}
	for _, fn := range targets {
		if fn.Parent() == nil {
			sweepSet[fn] = true
		}
	}
	// top-level functions first, closures afterwards (only if their call sites were not reached
	// through an inlined direct call in the parent)
	var closures []*ssa.Function
	for _, fn := range targets {
		if funcUnits[fn] {
			continue
		}
		if fn.Parent() != nil {
			closures = append(closures, fn)
			continue
		}
		fn := fn
		gen(shortFn(fn), func() *Unit { return sweepFunc(p, db, fn, o.prop, sweepSet) })
	}
	for _, u := range units {
		for _, c := range u.Callsites {
			covered[c] = true
		}
	}
	for _, fn := range closures {
		fn := fn
		if closureCovered(p, db, fn, o.prop, covered) {
			continue
		}
		gen(shortFn(fn), func() *Unit { return sweepFunc(p, db, fn, o.prop, sweepSet) })
	}
	tGen := time.Since(t0).Seconds() - tLoad

	// obligations recorded as known (unrepaired) findings are expected to fail: no long retry
	knownObl = map[string]bool{}
	for _, k := range loadKnown(o.verif) {
		if k.Status == "known" && k.Property == o.prop {
			knownObl[oblStem(k.Obligation)] = true
		}
	}
	solveAll(units, work, o.tier, o.seed, o.workers)
	// last resort against load: an obligation on which every solver ran out of time (no answer,
	// no candidate model) is tried once more with a long budget while nothing else is running -
	// a time-out on a loaded machine says nothing about the code (at most four such obligations)
	{
		type slowJob struct {
			u *Unit
			o *Obl
		}
		var slow []slowJob
		for _, u := range units {
			for _, ob := range u.Obls {
				if !ob.MustSat && (ob.Result == "timeout" || ob.Result == "unknown") && !knownObl[oblStem(ob.Name)] {
					slow = append(slow, slowJob{u, ob})
				}
			}
		}
		if len(slow) <= 4 && o.tier != "candidate" {
			for i, sj := range slow {
				solveObl(sj.u.vc, sj.o, work, "last", o.seed, 9000+i)
			}
		}
	}
	// call-site obligations that fail inside a contract-less unexported helper are decided at the
	// helper's call sites (delegate.go)
	if onlyRE == nil {
		unitFns := map[*Unit]*ssa.Function{}
		for _, u := range units {
			if u.fn != nil {
				unitFns[u] = u.fn
			}
		}
		units = append(units, delegateToCallers(p, db, o, units, unitFns, sweepSet, work)...)
	}
	tSolve := time.Since(t0).Seconds() - tLoad - tGen

	known := loadKnown(o.verif)
	baseline, haveBaseline := loadBaseline(o.verif, o.prop)
	return report(o, p, db, units, known, baseline, haveBaseline, engineErr, tLoad, tGen, tSolve, t0)
}

// closureCovered: every matching call site of the closure was already reached while its parent
// was executed (the closure was inlined at a direct call).
func closureCovered(p *Prog, db *ContractDB, fn *ssa.Function, prop string, covered map[string]bool) bool {
	x := newExec(p, db)
	all := true
	any := false
	for _, b := range fn.Blocks {
		for _, ins := range b.Instrs {
			ci, ok := ins.(ssa.CallInstruction)
			if !ok {
				continue
			}
			k, _, ok := x.staticCalleeKey(ci.Common())
			if !ok {
				continue
			}
			pkgPath := ""
			if o := outermost(fn); o.Pkg != nil {
				pkgPath = o.Pkg.Pkg.Path()
			}
			for _, cc := range db.Callsites {
				if cc.Key != k {
					continue
				}
				hasProp := false
				for _, pr := range cc.Props {
					if pr == prop {
						hasProp = true
					}
				}
				if !hasProp || !callsiteInScope(cc, pkgPath) || (cc.InFunc != nil && !cc.InFunc.MatchString(shortFn(fn))) {
					continue
				}
				nm := cc.Name
				if nm == "" {
					nm = shortKey(cc.Key)
				}
				any = true
				if !covered[fmt.Sprintf("%s at %s", nm, p.pos(ci.Pos()))] {
					all = false
				}
			}
		}
	}
	return any && all
}

func report(o *options, p *Prog, db *ContractDB, units []*Unit, known []KnownFinding, baseline map[string]bool, haveBaseline bool,
	engineErr string, tLoad, tGen, tSolve float64, t0 time.Time) int {
	knownMap := map[string]KnownFinding{}
	for _, k := range known {
		if k.Property == o.prop && k.Status == "known" {
			knownMap[k.Obligation] = k
		}
	}
	var reports []oblReport
	var violations, knownHits, broken []string
	nObl, nDis, nVac := 0, 0, 0
	byBackend := map[string]int{}
	solverTime := 0.0
	seen := map[string]bool{}
	seenStem := map[string]bool{}
	baselineStem := map[string]bool{}
	for name := range baseline {
		baselineStem[oblStem(name)] = true
	}
	var funcs, assumptions, unsupported, externs, contracts, inlined, callsites []string
	replayDir := filepath.Join(o.verif, "replay", o.prop)
	var discharged []string
	for _, u := range units {
		funcs = append(funcs, u.Kind+" "+u.Name)
		assumptions = append(assumptions, u.Assumptions...)
		if len(houdiniNotes) > 0 {
			assumptions = append(assumptions, houdiniNotes...)
		}
		externs = append(externs, u.UsedExterns...)
		contracts = append(contracts, u.UsedContracts...)
		inlined = append(inlined, u.Inlined...)
		callsites = append(callsites, u.Callsites...)
		for _, s := range u.Unsupported {
			unsupported = append(unsupported, u.Name+": "+s)
			if strings.HasPrefix(s, "spec:") {
				broken = append(broken, fmt.Sprintf("%s: %s", u.Name, s))
			}
		}
		if u.Err != "" {
			broken = append(broken, u.Name+": "+u.Err)
		}
		for _, ob := range u.Obls {
			seen[ob.Name] = true
			seenStem[oblStem(ob.Name)] = true
			r := oblReport{Name: ob.Name, Kind: ob.Kind, Unit: u.Name, Pos: ob.Pos, Text: ob.Text, Result: ob.Result, Solver: ob.Solver, Time: ob.Time, Size: ob.SMTSize, Brittle: ob.Brittle}
			solverTime += ob.Time
			if ob.MustSat {
				nVac++
				switch ob.Result {
				case "sat":
					r.Status = "vacuity-ok"
				case "unsat":
					r.Status = "VACUOUS"
					broken = append(broken, fmt.Sprintf("vacuity probe %s is unsat: the contract's assumptions are contradictory", ob.Name))
				default:
					r.Status = "vacuity-undecided"
				}
				reports = append(reports, r)
				continue
			}
			nObl++
			switch {
			case ob.Result == "unsat":
				nDis++
				byBackend[ob.Solver]++
				r.Status = "discharged"
				discharged = append(discharged, ob.Name)
			case ob.Result == "error":
				r.Status = "SOLVER-ERROR"
				broken = append(broken, fmt.Sprintf("%s: solver error: %s", ob.Name, trunc(ob.Output, 300)))
			case ob.Result == "disagree":
				r.Status = "SOLVERS-DISAGREE"
				broken = append(broken, fmt.Sprintf("%s: %s", ob.Name, ob.Output))
			default:
				if kf, ok := knownMap[ob.Name]; ok {
					r.Status = "known-finding"
					knownHits = append(knownHits, fmt.Sprintf("KNOWN-FINDING: property=%s %s [%s] (%s)", o.prop, kf.What, ob.Name, ob.Result))
				} else if !haveBaseline || baseline[ob.Name] || baselineStem[oblStem(ob.Name)] || autoKind(ob.Kind) {
					r.Status = "VIOLATION"
					path := writeReplay(replayDir, o, u, ob)
					suffix := ""
					replayed := tryReplay(o, p, u, ob, path)
					if !replayed {
						suffix = " no-failing-input-found"
					}
					violations = append(violations, fmt.Sprintf("VIOLATION property=%s replay=%s obligation=%s result=%s%s", o.prop, path, ob.Name, ob.Result, suffix))
				} else {
					r.Status = "unproven-unclaimed"
				}
			}
			reports = append(reports, r)
		}
	}
	// baseline obligations of hand-written kinds that vanished
	if haveBaseline && o.only == "" && !o.baseline {
		var missing []string
		for name := range baseline {
			if !seen[name] && !seenStem[oblStem(name)] && handKind(name) {
				missing = append(missing, name)
			}
		}
		sort.Strings(missing)
		for _, name := range missing {
			if _, ok := knownMap[name]; ok {
				continue
			}
			ob := &Obl{Name: name, Kind: "contract-shape", Result: "missing", Output: "the obligation was discharged on the baseline tree and is no longer generated (function, loop or clause vanished)"}
			path := writeReplay(replayDir, o, &Unit{Name: "?"}, ob)
			violations = append(violations, fmt.Sprintf("VIOLATION property=%s replay=%s obligation=%s result=missing no-failing-input-found", o.prop, path, name))
			reports = append(reports, oblReport{Name: name, Kind: "contract-shape", Result: "missing", Status: "VIOLATION"})
			nObl++
		}
	}
	if engineErr != "" {
		broken = append(broken, engineErr)
	}
	if nObl == 0 {
		broken = append(broken, "no obligations generated (vacuous check)")
	}
	var standins []interface{}
	if o.only == "" && !o.baseline {
		var sf, sv []string
		standins, sf, sv = runBoundedStandins(o)
		broken = append(broken, sf...)
		violations = append(violations, sv...)
		for _, s := range standins {
			if m, ok := s.(map[string]interface{}); ok && m["ran"] == true {
				fmt.Printf("bounded stand-in %v: %v (%v instances; bound: %v) - not counted as proved\n", m["name"], m["result"], m["instances"], m["bound"])
			}
		}
	}
	if o.baseline && len(broken) > 0 {
		fmt.Println("baseline NOT written: the check is broken")
	} else if o.baseline {
		sort.Strings(discharged)
		dir := filepath.Join(o.verif, "specs", "baseline")
		os.MkdirAll(dir, 0o755)
		os.WriteFile(filepath.Join(dir, o.prop+".txt"), []byte("# obligations discharged on the unchanged tree (written by `govc baseline`, never at check time)\n"+strings.Join(discharged, "\n")+"\n"), 0o644)
		fmt.Printf("baseline: %d discharged of %d obligations written\n", len(discharged), nObl)
		// names and types of the locals of every unit function (and its closures): lets a later
		// check follow a renamed local
		locs := map[string][]localRec{}
		var addFn func(f *ssa.Function)
		addFn = func(f *ssa.Function) {
			if f == nil || f.Blocks == nil {
				return
			}
			locs[f.String()] = localsOf(f)
			for _, af := range f.AnonFuncs {
				addFn(af)
			}
		}
		for _, u := range units {
			addFn(u.fn)
		}
		if b, err := json.MarshalIndent(locs, "", " "); err == nil {
			os.WriteFile(filepath.Join(dir, o.prop+".locals.json"), b, 0o644)
		}
	}
	// print
	if o.verbose || o.only != "" {
		for _, r := range reports {
			fmt.Printf("  [%s] %s (%s %s %.2fs %dB) @%s\n", r.Status, r.Name, r.Result, r.Solver, r.Time, r.Size, r.Pos)
		}
		for _, s := range unsupported {
			fmt.Println("  unmodelled:", s)
		}
	}
	for _, k := range knownHits {
		fmt.Println(k)
	}
	for _, v := range violations {
		fmt.Println(v)
	}
	for _, b := range broken {
		fmt.Println("BROKEN:", b)
	}
	wall := time.Since(t0).Seconds()
	fmt.Printf("property=%s tier=%s units=%d obligations=%d discharged=%d known=%d violations=%d vacuity-probes=%d load=%.1fs gen=%.1fs solve=%.1fs wall=%.1fs\n",
		o.prop, o.tier, len(units), nObl, nDis, len(knownHits), len(violations), nVac, tLoad, tGen, tSolve, wall)
	if o.only == "" {
		writeEvidence(o, db, reports, funcs, uniq(assumptions), uniq(unsupported), uniq(externs), uniq(contracts), uniq(inlined), uniq(callsites), byBackend, solverTime,
			nObl, nDis, nVac, len(violations), knownHits, broken, wall, standins)
	}
	switch {
	case len(broken) > 0:
		return 2
	case len(violations) > 0:
		return 1
	}
	return 0
}

var houdiniNotes []string
var knownObl map[string]bool

func autoKind(k string) bool {
	switch k {
	case "callsite", "monitor", "bounds", "overflow", "requires", "contract-shape":
		return true
	}
	return false
}

func handKind(name string) bool {
	return strings.Contains(name, "/ensures:") || strings.Contains(name, "/inv-") || strings.Contains(name, "/loop-exit:") || strings.HasPrefix(name, "lemma:") || strings.Contains(name, "/decreases:")
}

func uniq(xs []string) []string {
	m := map[string]bool{}
	var out []string
	for _, x := range xs {
		if !m[x] {
			m[x] = true
			out = append(out, x)
		}
	}
	sort.Strings(out)
	return out
}

func writeReplay(dir string, o *options, u *Unit, ob *Obl) string {
	os.MkdirAll(dir, 0o755)
	path := filepath.Join(dir, fmt.Sprintf("%s_%08x.json", sanitize(trunc(ob.Name, 120)), crc32.ChecksumIEEE([]byte(ob.Name))))
	rec := map[string]interface{}{
		"property": o.prop, "obligation": ob.Name, "kind": ob.Kind, "unit": u.Name, "position": ob.Pos, "clause": ob.Text,
		"solver": ob.Solver, "result": ob.Result, "verifier_output": ob.Output, "model": modelSummary(ob.Model),
	}
	b, _ := json.MarshalIndent(rec, "", " ")
	os.WriteFile(path, b, 0o644)
	return path
}

// modelSummary keeps the input-level part of a solver model (parameters and entry state).
func modelSummary(m string) []string {
	if m == "" {
		return nil
	}
	var out []string
	re := regexp.MustCompile(`\(define-fun ((?:p_|v_|let_|res_|hv_)[^ ]*) \(\) [^\n]*\n?\s*([^\n]*)\)`)
	for _, mm := range re.FindAllStringSubmatch(m, 200) {
		out = append(out, mm[1]+" = "+strings.TrimSpace(mm[2]))
	}
	return out
}

func writeEvidence(o *options, db *ContractDB, reports []oblReport, funcs, assumptions, unsupported, externs, contracts, inlined, callsites []string,
	byBackend map[string]int, solverTime float64, nObl, nDis, nVac, nViol int, knownHits, broken []string, wall float64, standins []interface{}) {
	if standins == nil {
		standins = []interface{}{}
	}
	dir := filepath.Join(o.verif, "evidence")
	if o.evidenceDir != "" {
		dir = o.evidenceDir
	}
	os.MkdirAll(dir, 0o755)
	var samples []interface{}
	for i, r := range reports {
		if i < 6 || r.Status == "VIOLATION" || r.Status == "known-finding" {
			samples = append(samples, r)
		}
	}
	trusted := []string{"solvers z3 4.8.12 / z3-new 5.1.0 / cvc5 1.0.3", "go/ssa (x/tools v0.29.0) lowering of the source", "govc VC generator"}
	for _, e := range externs {
		trusted = append(trusted, "assumed contract: "+e)
	}
	stdAssume := []string{
		"integers are mathematical unless the function is marked 'overflow on' (then every + - * << and narrowing conversion carries an in-range obligation)",
		"strings are an uninterpreted sort with length/concat axioms; no character-level reasoning",
		"functions outside the repository write only memory reachable by static type from their pointer-carrying arguments and may call methods of interface arguments (frame assumption)",
		"no writes to repository types through reflect/unsafe",
		"panics (explicit, nil dereference, index out of range, failed type assertion) are abnormal exits not covered by postconditions, except where bounds obligations are switched on",
		"package-level variables that are only assigned in their package initialiser are constants; stdlib error sentinels are constants",
		"mutexes: code between Lock and Unlock is verified sequentially; interference is modelled only where a monitor invariant is declared",
	}
	ev := map[string]interface{}{
		"property_id": o.prop,
		"tier":        o.tier,
		"seed":        o.seed,
		"level":       "proof",
		"wall_s":      wall,
		"violations":  nViol,
		"assumptions": append(stdAssume, assumptions...),
		"coverage": map[string]interface{}{
			"obligations":               nObl - len(knownHits),
			"discharged":                nDis,
			"obligations_generated":     nObl,
			"known_finding_obligations": len(knownHits),
			"checker_cmd":               fmt.Sprintf("/verif/bin/govc check --property %s --tier %s", o.prop, o.tier),
			"trusted_base":              trusted,
			"functions_under_contract":  funcs,
			"contracts_used_at_calls":   contracts,
			"inlined_callees":           inlined,
			"callsites_enumerated":      callsites,
			"by_backend":                byBackend,
			"solver_time_s":             solverTime,
			"vacuity_probes":            nVac,
			"known_findings":            knownHits,
			"broken":                    broken,
			"unmodelled_features":       unsupported,
			"contract_files":            db.Files,
			"samples":                   samples,
			"all_obligations":           reports,
			"bounded_standins":          standins,
		},
	}
	b, _ := json.MarshalIndent(ev, "", " ")
	os.WriteFile(filepath.Join(dir, o.prop+".json"), b, 0o644)
}

func runReplay(o *options, args []string) int {
	if len(args) == 0 {
		fmt.Fprintln(os.Stderr, "usage: govc replay <file>")
		return 2
	}
	b, err := os.ReadFile(args[0])
	if err != nil {
		fmt.Fprintln(os.Stderr, err)
		return 2
	}
	fmt.Println(string(b))
	return 0
}

// tryReplay: run the replay driver for the obligation, if one exists. Returns true if a failing
// input was reproduced on the real code.
func tryReplay(o *options, p *Prog, u *Unit, ob *Obl, path string) bool {
	return replayOnRealCode(o, u, ob, path)
}
