package main

import (
	"fmt"
	"go/token"
	"sort"
	"strings"

	"golang.org/x/tools/go/ssa"
)

// Delegation of call-site obligations to the callers of a helper.
//
// A call-site contract ("every call of X in this package happens behind the gate", "a path is
// only built from a validated digest") yields one obligation per matching call. When such a call
// sits in a small unexported helper that has no contract of its own, the helper's own unit knows
// nothing about the context it is called in and the obligation fails there although every call of
// the helper is made under the required condition (the usual result of an "extract function"
// refactoring). The property speaks about executions, not about function boundaries, so the
// obligation is decided where the helper is called instead: for every static caller of the helper
// in the repository the caller is executed with the helper inlined and the obligation is generated
// at the inlined call (name .../via:<caller>). It counts as discharged only if every caller
// discharges it; otherwise the failure in the helper stands. A helper is delegable only if all of
// its uses are static calls from repository code (not exported, no contract, never taken as a
// value, no dynamic call of a method of that name).

func delegateToCallers(p *Prog, db *ContractDB, o *options, units []*Unit, unitFns map[*Unit]*ssa.Function, sweepSet map[*ssa.Function]bool, work string) []*Unit {
	var extra []*Unit
	type pending struct {
		u  *Unit
		ob *Obl
	}
	byHelper := map[*ssa.Function][]pending{}
	var helpers []*ssa.Function
	for _, u := range units {
		h := unitFns[u]
		if u.Kind != "sweep" || h == nil {
			continue
		}
		for _, ob := range u.Obls {
			if ob.Kind != "callsite" || ob.MustSat || ob.Result == "unsat" || ob.Result == "error" || strings.Contains(ob.Name, "/via:") {
				continue
			}
			if _, seen := byHelper[h]; !seen {
				helpers = append(helpers, h)
			}
			byHelper[h] = append(byHelper[h], pending{u, ob})
		}
	}
	sort.Slice(helpers, func(i, j int) bool { return helpers[i].String() < helpers[j].String() })
	for _, h := range helpers {
		callers, ok := delegableCallers(p, db, h)
		if !ok || len(callers) == 0 {
			continue
		}
		// run every caller with the helper inlined
		ss := map[*ssa.Function]bool{}
		for f := range sweepSet {
			if f != h {
				ss[f] = true
			}
		}
		prefix := shortFn(h) + "/requires:"
		var cus []*Unit
		okAll := true
		for _, g := range callers {
			g := g
			var cu *Unit
			func() {
				defer func() {
					if r := recover(); r != nil {
						okAll = false
					}
				}()
				cu = sweepFunc(p, db, g, o.prop, ss)
			}()
			if cu == nil || cu.Err != "" {
				okAll = false
				break
			}
			// keep only the helper's obligations reached through this caller
			var keep []*Obl
			for _, ob := range cu.Obls {
				if strings.HasPrefix(ob.Name, prefix) && strings.Contains(ob.Name, "/via:") {
					keep = append(keep, ob)
				}
			}
			cu.Obls = keep
			cu.Name = cu.Name + " (caller of helper " + shortFn(h) + ")"
			cus = append(cus, cu)
		}
		if !okAll {
			continue
		}
		solveAll(cus, work, o.tier, o.seed, o.workers)
		for _, pd := range byHelper[h] {
			// the obligation of the helper, as generated in each caller
			stem := strings.SplitN(pd.ob.Name, "#", 2)[0]
			decided := true
			var where []string
			for _, cu := range cus {
				n := 0
				for _, ob := range cu.Obls {
					if ob.MustSat || !strings.HasPrefix(ob.Name, stem+"#") {
						continue
					}
					n++
					if ob.Result != "unsat" {
						decided = false
					}
				}
				if n == 0 {
					decided = false // the helper's call was not reached in this caller (too deep, dynamic): no delegation
				}
				where = append(where, strings.TrimSuffix(cu.Name, " (caller of helper "+shortFn(h)+")"))
			}
			if decided {
				pd.ob.Result = "unsat"
				pd.ob.Solver = "callers"
				pd.ob.Output = "decided at the call sites of the helper (helper inlined into each static caller): " + strings.Join(where, ", ")
				pd.u.Assumptions = append(pd.u.Assumptions, fmt.Sprintf("%s: the helper %s has no contract; the obligation was decided in its callers %s, which are all of its uses (unexported, never taken as a value)", pd.ob.Name, shortFn(h), strings.Join(where, ", ")))
			}
		}
		extra = append(extra, cus...)
	}
	return extra
}

// delegableCallers returns the static callers of h when every use of h is a static call from a
// repository function.
func delegableCallers(p *Prog, db *ContractDB, h *ssa.Function) ([]*ssa.Function, bool) {
	if h.Parent() != nil || h.Blocks == nil || token.IsExported(h.Name()) {
		return nil, false
	}
	if _, has := db.Funcs[h.String()]; has {
		return nil, false
	}
	isMethod := h.Signature.Recv() != nil
	seen := map[*ssa.Function]bool{}
	var callers []*ssa.Function
	for _, fn := range p.AllFuncs {
		if fn.Blocks == nil {
			continue
		}
		for _, b := range fn.Blocks {
			for _, ins := range b.Instrs {
				var common *ssa.CallCommon
				if ci, ok := ins.(ssa.CallInstruction); ok {
					common = ci.Common()
				}
				if common != nil && common.IsInvoke() && isMethod && common.Method.Name() == h.Name() {
					return nil, false // could be a dynamic call of the helper
				}
				static := common != nil && common.StaticCallee() == h
				for _, op := range ins.Operands(nil) {
					if op == nil || *op == nil {
						continue
					}
					if f, ok := (*op).(*ssa.Function); ok && f == h {
						if static && common.Value == *op {
							continue
						}
						return nil, false // taken as a value
					}
				}
				if static {
					if _, isGo := ins.(*ssa.Go); isGo {
						return nil, false
					}
					if _, isDefer := ins.(*ssa.Defer); isDefer {
						return nil, false
					}
					if !p.effects.isRepoFn(fn) || (fn.Synthetic != "" && !strings.Contains(fn.Synthetic, "instantiation")) {
						return nil, false
					}
					if fn == h {
						return nil, false // recursive
					}
					if !seen[fn] {
						seen[fn] = true
						callers = append(callers, fn)
					}
				}
			}
		}
	}
	sort.Slice(callers, func(i, j int) bool { return callers[i].String() < callers[j].String() })
	return callers, true
}
