package main

import (
	"fmt"
	"go/ast"
	"go/types"
	"os"
	"regexp"
	"sort"
	"strings"
	"time"

	"golang.org/x/tools/go/ssa"
)

// Unit is one verification unit and its obligations.
type Unit struct {
	Kind          string // func | sweep | lemma
	Name          string
	Props         []string
	Obls          []*Obl
	Unsupported   []string
	Assumptions   []string
	Inlined       []string
	UsedContracts []string
	UsedExterns   []string
	Callsites     []string
	GenTime       float64
	vc            *VC
	Err           string
	Pos           string
	fn            *ssa.Function // sweep units: the function that was swept
}

func (x *Exec) newTopFrame(fn *ssa.Function, st *State) *Frame {
	fr := &Frame{fn: fn, vals: map[ssa.Value]string{}, laddr: map[ssa.Value]*LAddr{}, tuples: map[ssa.Value][]string{}, lets: map[string]specVal{}}
	for _, p := range fn.Params {
		t := x.paramOfType(st, "p_"+p.Name(), p.Type())
		fr.vals[p] = t
		fr.params = append(fr.params, t)
	}
	for _, fv := range fn.FreeVars {
		fr.vals[fv] = x.paramOfType(st, "fv_"+fv.Name(), fv.Type())
	}
	return fr
}

// assertAxioms adds the axioms of the spec files whose ghost functions are used in this VC.
func (x *Exec) assertAxioms() {
	for round := 0; round < 3; round++ {
		added := false
		for i, ax := range x.db.Axioms {
			key := fmt.Sprintf("axiom#%d", i)
			if x.vc.declared[key] {
				continue
			}
			used := false
			for _, m := range ghostNameRE.FindAllStringSubmatch(ax.Text, -1) {
				if x.vc.ufuns["uf_"+sanitize(m[1])] {
					used = true
				}
			}
			if !used {
				continue
			}
			x.vc.declared[key] = true
			added = true
			env := &SpecEnv{x: x, names: map[string]specVal{}, st: &State{reach: "true", cells: map[*ssa.Alloc]string{}, mem: map[string]string{}, ghost: map[string]string{}, dflags: map[*ssa.Defer]string{}}}
			if pk, ok := x.p.AllPkgs[x.db.AxiomPkg[i]]; ok {
				env.pkg = pk.Types
			}
			env.old = env.st
			x.vc.decl(qMark + "(assert " + x.evalBool(env, ax.Expr) + ")")
			x.usedExterns["axiom: "+ax.Text] = true
		}
		if !added {
			break
		}
	}
}

var ghostNameRE = regexp.MustCompile(`\$(\w+)`)

func (x *Exec) finishUnit(u *Unit, t0 time.Time) *Unit {
	x.assertAxioms()
	u.vc = x.vc
	u.Obls = x.vc.obls
	// a contract that names a variable, field or call the code no longer has does not fit the code
	// any more: that is a (contract-shape) violation of the claimed clause, not a broken check.
	// Follow-up evaluation errors of the same unit are consequences and are folded into it.
	// ... but only for names that belong to the function's interface as the contract header
	// records it (parameters, results) or to a callee ($ret): a vanished plain local is a rename
	// or refactoring the contract has to follow, reported as a broken check (exit 2), never as a
	// violation of the property.
	var missing []string
	for m := range x.unsupported {
		if sm := nameResolutionRE.FindStringSubmatch(m); sm != nil {
			if strings.HasPrefix(sm[1], "$ret") || (x.topC != nil && (containsStr(x.topC.Params, sm[2]) || containsStr(x.topC.Results, sm[2]))) {
				missing = append(missing, m)
			}
		}
	}
	if len(missing) > 0 {
		sort.Strings(missing)
		for m := range x.unsupported {
			if strings.HasPrefix(m, "spec:") {
				delete(x.unsupported, m)
			}
		}
		// obligations built from a clause that failed to evaluate are ill-formed: the names-resolve
		// violation stands for them
		kept := x.vc.obls[:0]
		for _, o := range x.vc.obls {
			if strings.Contains(o.Goal, "specerr") || strings.Contains(strings.Join(o.Extra, " "), "specerr") {
				continue
			}
			kept = append(kept, o)
		}
		x.vc.obls = kept
		for _, m := range missing {
			id := nameResolutionRE.FindStringSubmatch(m)[2]
			o := &Obl{Name: fmt.Sprintf("%s/contract-shape:names-resolve(%s)", u.Name, id), Kind: "contract-shape", Reach: "true", Goal: "false", Pos: u.Pos,
				Text: "every variable, field and call a contract clause names exists in the code: " + m, Fn: u.Name}
			x.vc.obls = append(x.vc.obls, o)
		}
	}
	u.Obls = x.vc.obls
	u.Unsupported = sortedKeys(x.unsupported)
	u.Assumptions = sortedKeys(x.vc.assumptions)
	u.Inlined = sortedKeys(x.inlinedFns)
	u.UsedContracts = sortedKeys(x.usedContracts)
	u.UsedExterns = sortedKeys(x.usedExterns)
	u.Callsites = x.callsites
	u.GenTime = time.Since(t0).Seconds()
	return u
}

var nameResolutionRE = regexp.MustCompile(`^spec: (unknown identifier|caller has no variable|no field|\$ret: no call of|\$ret\()\s*([\w$.]+)`)

func containsStr(l []string, s string) bool {
	for _, e := range l {
		if e == s {
			return true
		}
	}
	return false
}

func fieldWriteInScope(fw *FieldWriteContract, pkgPath string) bool {
	if len(fw.In) == 0 {
		return true
	}
	for _, in := range fw.In {
		in = expandModRel(in)
		if pkgPath == in || (strings.HasSuffix(in, "/...") && strings.HasPrefix(pkgPath+"/", in[:len(in)-3])) {
			return true
		}
	}
	return false
}

// verifyWriters checks a frame contract on a memory key: every repository function whose body
// contains a write to the key (not counting writes into objects that invocation allocated) must
// be on the allow list. One obligation per writing function.
func verifyWriters(p *Prog, db *ContractDB, w *WritersSpec) *Unit {
	t0 := time.Now()
	u := &Unit{Kind: "writers", Name: "writers:" + shortKey(w.Key), Props: w.Props, Pos: w.File}
	x := newExec(p, db)
	x.top = &ssa.Function{}
	allowed := map[*ssa.Function]bool{}
	for _, a := range w.Allow {
		fn := p.lookupFunc(expandModRel(a), w.Pkg)
		if fn == nil {
			o := &Obl{Name: fmt.Sprintf("%s/contract-shape:allowed-function-exists(%s)", u.Name, a), Kind: "contract-shape", Reach: "true", Goal: "false", Pos: w.File, Text: "function on the allow list exists", Fn: u.Name}
			x.vc.obls = append(x.vc.obls, o)
			continue
		}
		allowed[fn] = true
	}
	var names []string
	byName := map[string]*ssa.Function{}
	for _, fn := range p.AllFuncs {
		if fn.Blocks == nil || !p.effects.isRepoFn(fn) {
			continue
		}
		d := p.effects.direct[fn]
		hit := d[w.Key]
		if !hit && strings.HasPrefix(w.Key, "M|") {
			hit = d[w.Key+"#has"] || d[w.Key+"#val"]
		}
		if hit {
			n := shortFn(fn)
			if _, dup := byName[n]; !dup {
				names = append(names, n)
			}
			byName[n] = fn
		}
	}
	sort.Strings(names)
	for _, n := range names {
		fn := byName[n]
		goal := "false"
		if allowed[fn] || allowed[outermost(fn)] {
			goal = "true"
		}
		o := &Obl{Name: fmt.Sprintf("%s/only-listed-functions-write(%s)", u.Name, n), Kind: "contract-shape", Reach: "true", Goal: goal, Pos: p.pos(fn.Pos()), Text: "function writing " + w.Key + " is on the allow list", Fn: u.Name}
		x.vc.obls = append(x.vc.obls, o)
	}
	if len(names) == 0 {
		// nothing writes the key: the contract is vacuous – say so loudly
		o := &Obl{Name: fmt.Sprintf("%s/contract-shape:key-is-written-somewhere", u.Name), Kind: "contract-shape", Reach: "true", Goal: "false", Pos: w.File, Text: "the framed key is written by some function", Fn: u.Name}
		x.vc.obls = append(x.vc.obls, o)
	}
	return x.finishUnit(u, t0)
}

// verifyFunc checks a function against its contract.
func verifyFunc(p *Prog, db *ContractDB, fc *FuncContract, prop string) (u *Unit) {
	t0 := time.Now()
	u = &Unit{Kind: "func", Name: shortKey(fc.Key), Props: fc.Props, Pos: fc.File, fn: fc.Fn}
	x := newExec(p, db)
	x.prop = prop
	x.mode = "func"
	defer func() {
		if r := recover(); r != nil {
			u.Err = fmt.Sprintf("engine panic: %v", r)
			x.finishUnit(u, t0)
			panic(r)
		}
	}()
	fn := fc.Fn
	if fn == nil || fn.Blocks == nil {
		// the function named by the contract no longer exists: loud, named failure
		x.top = &ssa.Function{}
		o := &Obl{Name: fmt.Sprintf("%s/contract-shape:function-exists", u.Name), Kind: "contract-shape", Reach: "true", Goal: "false", Pos: fc.File, Text: "function under contract exists", Fn: u.Name}
		x.vc.obls = append(x.vc.obls, o)
		return x.finishUnit(u, t0)
	}
	x.top = fn
	x.topName = fn.String()
	x.topC = fc
	x.loopOwner = fc
	x.overflowOn = fc.Overflow
	x.safetyOn = fc.Safety
	if fc.Depth >= 0 {
		x.maxDepth = fc.Depth
	}
	st := &State{reach: "true", cells: map[*ssa.Alloc]string{}, mem: map[string]string{}, ghost: map[string]string{}, dflags: map[*ssa.Defer]string{}}
	fr := x.newTopFrame(fn, st)
	fr.contract = fc
	// contract-shape: declared loops exist
	hs := loopHeaders(fn)
	for idx := range fc.Loops {
		if idx >= len(hs) {
			x.addObl(st, "contract-shape", fmt.Sprintf("%s/contract-shape:loop%d", shortFn(fn), idx), "false", fc.File, fmt.Sprintf("loop %d exists", idx))
		}
	}
	env := &SpecEnv{x: x, names: map[string]specVal{}, st: st, old: st, fr: fr}
	env.pkg = x.pkgOfContract(fc.Pkg, fn)
	x.bindParams(env, fc, fn, fr)
	for _, l := range fc.Lets {
		v := x.evalSpec(env, l.Expr)
		v.term = x.vc.define("let_"+l.Name, x.vc.sortOf(v.typ), v.term)
		fr.lets[l.Name] = v
		env.names[l.Name] = v
	}
	for _, r := range fc.Requires {
		x.assume(st, x.evalBool(env, r.Expr))
	}
	for _, r := range fc.Assume {
		x.assume(st, x.evalBool(env, r.Expr))
	}
	for _, r := range fc.Scope {
		x.assume(st, x.evalBool(env, r.Expr))
	}
	for _, ow := range fc.Owns {
		sel, ok := ow.Expr.(*ast.SelectorExpr)
		if !ok {
			x.unsupp("spec: owns needs <ptr>.<field>: %s", ow.Text)
			continue
		}
		base := x.evalSpec(env, sel.X)
		pt, ok := base.typ.Underlying().(*types.Pointer)
		if !ok {
			x.unsupp("spec: owns: %s is not a pointer", exprString(sel.X))
			continue
		}
		stt, ok := pt.Elem().Underlying().(*types.Struct)
		if !ok {
			x.unsupp("spec: owns: %s does not point to a struct", exprString(sel.X))
			continue
		}
		found := false
		for i := 0; i < stt.NumFields(); i++ {
			if stt.Field(i).Name() == sel.Sel.Name {
				key := fieldMemKey(pt.Elem(), i)
				x.memGet(st, key, x.fieldArraySort(stt.Field(i).Type()))
				x.owned = append(x.owned, ownedLoc{ptr: base.term, key: key})
				x.vc.note("owns " + ow.Text + ": callees that are not handed the object do not write this field")
				found = true
			}
		}
		if !found {
			x.unsupp("spec: owns: no field %s", sel.Sel.Name)
		}
	}
	x.reachOf(st)
	fr.entry = st.clone()
	fr.entry.objN = x.objCtr
	exit, res := x.execFunc(fr, st)
	if exit == nil {
		x.addObl(fr.entry, "vacuity", fmt.Sprintf("%s/vacuity:returns", shortFn(fn)), "false", fc.File, "some return is reachable").MustSat = true
		x.vc.obls[len(x.vc.obls)-1].Reach = "false"
		return x.finishUnit(u, t0)
	}
	// ensures
	eenv := &SpecEnv{x: x, names: map[string]specVal{}, st: exit, old: fr.entry, fr: fr}
	eenv.pkg = env.pkg
	x.bindParams(eenv, fc, fn, fr)
	for k, v := range fr.lets {
		eenv.names[k] = v
	}
	rts := x.resultTypes(fn.Signature)
	for i, rt := range rts {
		name := fmt.Sprintf("result%d", i)
		if i < len(fc.Results) {
			name = fc.Results[i]
		} else if n := fn.Signature.Results().At(i).Name(); n != "" {
			name = n
		}
		eenv.names[name] = specVal{term: res[i], typ: rt}
		if len(rts) == 1 {
			eenv.names["result"] = specVal{term: res[i], typ: rt}
		}
	}
	if x.wantObl(fc.Props) {
		for _, e := range fc.Ensures {
			goal := x.evalBool(eenv, e.Expr)
			o := x.addObl(exit, "ensures", fmt.Sprintf("%s/ensures:%s", shortFn(fn), e.Label), goal, e.Pos, e.Text)
			_ = o
		}
	}
	// a call hook that matched no call of the function is a hole in the contract (its ghost keeps
	// the entry value and clauses guarded by it hold vacuously): say so loudly
	for name := range fc.OnCall {
		if strings.HasPrefix(name, "mapupdate:") {
			continue
		}
		if !x.hookFired[fc.Key+"|"+name] {
			msg := fmt.Sprintf("WARNING: on-call hook %q of %s matched no call in the function", name, shortKey(fc.Key))
			x.vc.note(msg)
			if os.Getenv("GOVC_HOOK_WARNINGS") != "" {
				fmt.Fprintln(os.Stderr, msg)
			}
		}
	}
	v := x.addObl(exit, "vacuity", fmt.Sprintf("%s/vacuity:returns", shortFn(fn)), "true", fc.File, "some return is reachable under the precondition")
	v.MustSat = true
	return x.finishUnit(u, t0)
}

// bindParams: entry values of the parameters under their names (used by old() and at entry).
func (x *Exec) bindParams(env *SpecEnv, fc *FuncContract, fn *ssa.Function, fr *Frame) {
	for i, p := range fn.Params {
		if i < len(fr.params) {
			env.names["old:"+p.Name()] = specVal{term: fr.params[i], typ: p.Type()}
		}
	}
}

// sweepFunc runs a function without a contract of its own, only to generate the obligations of
// call-site contracts (and monitors) found in it.
func sweepFunc(p *Prog, db *ContractDB, fn *ssa.Function, prop string, sweepSet map[*ssa.Function]bool) (u *Unit) {
	t0 := time.Now()
	u = &Unit{Kind: "sweep", Name: shortFn(fn), Pos: p.pos(fn.Pos()), fn: fn}
	x := newExec(p, db)
	x.prop = prop
	x.mode = "sweep"
	x.top = fn
	x.topName = fn.String()
	x.sweepOnly = true
	x.sweepSet = sweepSet
	x.maxDepth = 2
	defer func() {
		if r := recover(); r != nil {
			u.Err = fmt.Sprintf("engine panic: %v", r)
			x.finishUnit(u, t0)
			panic(r)
		}
	}()
	st := &State{reach: "true", cells: map[*ssa.Alloc]string{}, mem: map[string]string{}, ghost: map[string]string{}, dflags: map[*ssa.Defer]string{}}
	fr := x.newTopFrame(fn, st)
	if fc, ok := db.Funcs[fn.String()]; ok {
		// a contract exists (verified separately): use its precondition and inline hints
		fr.contract = fc
		x.loopOwner = fc
		env := &SpecEnv{x: x, names: map[string]specVal{}, st: st, old: st, fr: fr}
		env.pkg = x.pkgOfContract(fc.Pkg, fn)
		for _, r := range fc.Requires {
			x.assume(st, x.evalBool(env, r.Expr))
		}
		for _, r := range fc.Assume {
			x.assume(st, x.evalBool(env, r.Expr))
		}
	}
	fr.entry = st.clone()
	fr.entry.objN = x.objCtr
	x.execFunc(fr, st)
	return x.finishUnit(u, t0)
}

// verifyLemma: a statement over symbolic inputs in which calls to real functions are executed
// on their SSA bodies.
func verifyLemma(p *Prog, db *ContractDB, lm *Lemma, prop string) (u *Unit) {
	t0 := time.Now()
	u = &Unit{Kind: "lemma", Name: "lemma:" + lm.Name, Props: lm.Props, Pos: lm.File}
	x := newExec(p, db)
	x.prop = prop
	x.mode = "lemma"
	x.maxDepth = 6
	if lm.Depth >= 0 {
		x.maxDepth = lm.Depth
	}
	x.top = &ssa.Function{}
	x.topName = "lemma:" + lm.Name
	x.lemmaInline = map[string]bool{}
	for _, n := range lm.Inline {
		x.lemmaInline[n] = true
	}
	defer func() {
		if r := recover(); r != nil {
			u.Err = fmt.Sprintf("engine panic: %v", r)
			x.finishUnit(u, t0)
			panic(r)
		}
	}()
	st := &State{reach: "true", cells: map[*ssa.Alloc]string{}, mem: map[string]string{}, ghost: map[string]string{}, dflags: map[*ssa.Defer]string{}}
	env := &SpecEnv{x: x, names: map[string]specVal{}, st: st, old: st}
	if pk, ok := p.AllPkgs[lm.Pkg]; ok {
		env.pkg = pk.Types
	}
	for _, v := range lm.Vars {
		ty := x.resolveTypeExpr(v.Type, env.pkg)
		if ty == nil {
			x.unsupp("lemma %s: cannot resolve type %s", lm.Name, exprString(v.Type))
			continue
		}
		env.names[v.Name] = specVal{term: x.paramOfType(st, "v_"+v.Name, ty), typ: ty}
	}
	n := 0
	for _, s := range lm.Steps {
		switch s.Kind {
		case "let":
			v := x.evalSpec(env, s.C.Expr)
			v.term = x.vc.define("let_"+s.Name, x.vc.sortOf(v.typ), v.term)
			env.names[s.Name] = v
		case "assume":
			x.assume(st, x.evalBool(env, s.C.Expr))
		case "assert":
			n++
			label := s.C.Label
			if label == "" {
				label = fmt.Sprintf("a%d", n)
			}
			goal := x.evalBool(env, s.C.Expr)
			x.addObl(st, "lemma", fmt.Sprintf("lemma:%s/%s", lm.Name, label), goal, s.C.Pos, s.C.Text)
			x.assume(st, goal)
		}
	}
	v := x.addObl(st, "vacuity", fmt.Sprintf("lemma:%s/vacuity", lm.Name), "true", lm.File, "the lemma's hypotheses are satisfiable")
	v.MustSat = true
	return x.finishUnit(u, t0)
}

// sweepTargets: functions (and closures) in the repo that contain a call matching a call-site
// contract of the property.
func sweepTargets(p *Prog, db *ContractDB, prop string) []*ssa.Function {
	keys := map[string][]*CallsiteContract{}
	for _, cc := range db.Callsites {
		ok := prop == ""
		for _, pr := range cc.Props {
			if pr == prop {
				ok = true
			}
		}
		if ok {
			keys[cc.Key] = append(keys[cc.Key], cc)
		}
	}
	// every caller of a function whose contract has a pre-condition is a unit too (modularity:
	// the pre-condition is an obligation at each call site in the repository)
	reqKeys := map[string]bool{}
	for _, fc := range db.FuncList {
		if fc.Extern || len(fc.Requires) == 0 {
			continue
		}
		for _, pr := range fc.Props {
			if pr == prop || prop == "" {
				reqKeys[fc.Key] = true
			}
		}
	}
	var fws []*FieldWriteContract
	for _, fw := range db.FieldWrites {
		for _, pr := range fw.Props {
			if pr == prop || prop == "" {
				fws = append(fws, fw)
				break
			}
		}
	}
	if len(keys) == 0 && len(reqKeys) == 0 && len(fws) == 0 {
		return nil
	}
	x := newExec(p, db)
	var out []*ssa.Function
	for _, fn := range p.AllFuncs {
		if fn.Blocks == nil || !p.effects.isRepoFn(fn) {
			continue
		}
		if fn.Synthetic != "" && !strings.Contains(fn.Synthetic, "instantiation") {
			continue
		}
		pkgPath := ""
		if o := outermost(fn); o.Pkg != nil {
			pkgPath = o.Pkg.Pkg.Path()
		}
		found := false
		for _, b := range fn.Blocks {
			for _, ins := range b.Instrs {
				if len(fws) > 0 {
					var ak, atk string
					switch t := ins.(type) {
					case *ssa.Store:
						if ia, ok := t.Addr.(*ssa.IndexAddr); ok {
							ak, atk = "elem", typeKey(deref(ia.Type()))
						}
					case *ssa.MapUpdate:
						ak, atk = "map", typeKey(t.Map.Type().Underlying())
					case *ssa.Lookup:
						if _, isMap := t.X.Type().Underlying().(*types.Map); isMap {
							ak, atk = "map", typeKey(t.X.Type().Underlying())
						}
					}
					if ak != "" {
						for _, fw := range fws {
							if fw.Kind == ak && fw.Type == atk && (fw.InFunc == nil || fw.InFunc.MatchString(shortFn(fn))) && fieldWriteInScope(fw, pkgPath) {
								found = true
							}
						}
					}
				}
				if stt, isStore := ins.(*ssa.Store); isStore && len(fws) > 0 {
					if fa, isFA := stt.Addr.(*ssa.FieldAddr); isFA {
						if su, isStruct := deref(fa.X.Type()).Underlying().(*types.Struct); isStruct {
							for _, fw := range fws {
								if fw.Kind == "field" && fw.Type == typeKey(deref(fa.X.Type())) && fw.Field == su.Field(fa.Field).Name() &&
									(fw.InFunc == nil || fw.InFunc.MatchString(shortFn(fn))) && fieldWriteInScope(fw, pkgPath) {
									found = true
								}
							}
						}
					}
				}
				ci, ok := ins.(ssa.CallInstruction)
				if !ok {
					continue
				}
				k, _, ok := x.staticCalleeKey(ci.Common())
				if !ok {
					if u, isLoad := ci.Common().Value.(*ssa.UnOp); isLoad && !ci.Common().IsInvoke() {
						if a, isAlloc := u.X.(*ssa.Alloc); isAlloc && a.Comment != "" {
							k, ok = "var:"+a.Comment, true
						}
					}
				}
				if !ok {
					if en, _ := elemCallName(ci.Common()); en != "" {
						k, ok = en, true
					}
				}
				if !ok {
					continue
				}
				for _, cc := range keys[k] {
					if callsiteInScope(cc, pkgPath) && (cc.InFunc == nil || cc.InFunc.MatchString(shortFn(fn))) {
						found = true
					}
				}
				if reqKeys[k] {
					found = true
				}
			}
		}
		if found {
			out = append(out, fn)
			// the enclosing function: a closure that is called directly is reached by inlining
			if o := outermost(fn); o != fn {
				dup := false
				for _, f := range out {
					if f == o {
						dup = true
					}
				}
				if !dup {
					out = append(out, o)
				}
			}
		}
	}
	{
		seen := map[*ssa.Function]bool{}
		var ded []*ssa.Function
		for _, f := range out {
			if !seen[f] {
				seen[f] = true
				ded = append(ded, f)
			}
		}
		out = ded
	}
	sort.Slice(out, func(i, j int) bool { return out[i].String() < out[j].String() })
	return out
}

func callsiteInScope(cc *CallsiteContract, pkgPath string) bool {
	match := func(in string) bool {
		in = expandModRel(in)
		return pkgPath == in || (strings.HasSuffix(in, "/...") && strings.HasPrefix(pkgPath+"/", in[:len(in)-3]))
	}
	for _, in := range cc.NotIn {
		if match(in) {
			return false
		}
	}
	if len(cc.In) == 0 {
		return true
	}
	for _, in := range cc.In {
		if match(in) {
			return true
		}
	}
	return false
}

var _ = types.Typ
