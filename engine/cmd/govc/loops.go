package main

import (
	"fmt"
	"go/token"
	"go/types"
	"regexp"
	"sort"
	"strings"

	"golang.org/x/tools/go/ssa"
)

func (x *Exec) loopSpec(fr *Frame, idx int) *LoopSpec {
	c := fr.contract
	if c == nil {
		if fc, ok := x.db.Funcs[shortFn(fr.fn)]; ok {
			c = fc
		}
	}
	if c == nil {
		return nil
	}
	return c.Loops[idx]
}

func (x *Exec) invEnv(fr *Frame, st *State) *SpecEnv {
	env := &SpecEnv{x: x, names: map[string]specVal{}, st: st, old: fr.entry, fr: fr}
	if fr.fn.Pkg != nil {
		env.pkg = fr.fn.Pkg.Pkg
	} else if o := outermost(fr.fn); o.Pkg != nil {
		env.pkg = o.Pkg.Pkg
	}
	for k, v := range fr.lets {
		env.names[k] = v
	}
	return env
}

// loopCut: assert the invariant on entry, havoc everything the loop may modify, assume the
// invariant. st is the merged state of the forward edges into the header; it is updated in place.
func (x *Exec) loopCut(fr *Frame, st *State, h *ssa.BasicBlock, idx int, edges []edgeIn) {
	spec := x.loopSpec(fr, idx)
	body := loopBlocks(h)
	loopName := fmt.Sprintf("loop%d", idx)
	if spec != nil && fr.depth == 0 {
		if spec.Var != "" && !loopMentionsVar(body, spec.Var) && loopSpecNames(spec, spec.Var) {
			x.addObl(st, "contract-shape", fmt.Sprintf("%s/contract-shape:%s(%s)", shortFn(x.top), loopName, spec.Var), "false", x.p.pos(blockPos(h)),
				fmt.Sprintf("loop %d no longer has variable %s", idx, spec.Var))
		}
		env := x.invEnv(fr, st)
		x.bindRangeIdx(fr, h, env)
		for _, inv := range spec.Invariants {
			if inv.Dropped || inv.Proved {
				continue
			}
			goal := x.evalBool(env, inv.Expr)
			x.addObl(st, "inv-entry", fmt.Sprintf("%s/inv-entry:%s/%s%s", shortFn(x.top), loopName, candPrefix(inv), inv.Label), goal, x.p.pos(blockPos(h)), inv.Text)
		}
	}
	// havoc
	x.havocLoop(fr, st, h, body)
	// assume invariant
	if spec != nil {
		env := x.invEnv(fr, st)
		x.bindRangeIdx(fr, h, env)
		for _, inv := range spec.Invariants {
			if inv.Dropped {
				continue
			}
			x.assume(st, x.evalBool(env, inv.Expr))
		}
		if len(spec.HeadEffects) > 0 && fr.depth == 0 {
			for _, ef := range spec.HeadEffects {
				henv := x.invEnv(fr, st)
				x.bindRangeIdx(fr, h, henv)
				v := x.evalSpec(henv, ef.Expr)
				st.ghost[ef.Ghost] = x.vc.define("ghost_"+ef.Ghost, x.ghostSort(ef.Ghost), v.term)
			}
		}
		if spec.Decreases != nil && fr.depth == 0 {
			v := x.evalSpec(env, spec.Decreases.Expr)
			if fr.lets == nil {
				fr.lets = map[string]specVal{}
			}
			fr.lets[fmt.Sprintf("variant:%d", idx)] = specVal{term: x.vc.define("variant", "Int", v.term), typ: tInt}
		}
	}
}

func candPrefix(c *Clause) string {
	if c.Candidate {
		return "candidate:"
	}
	return ""
}

func (x *Exec) bindRangeIdx(fr *Frame, h *ssa.BasicBlock, env *SpecEnv) {
	for _, ins := range h.Instrs {
		phi, ok := ins.(*ssa.Phi)
		if !ok {
			break
		}
		if phi.Comment == "rangeindex" {
			env.names["G_idx"] = specVal{term: fr.vals[phi], typ: tInt}
		}
	}
	if _, bound := env.names["G_idx"]; bound || len(h.Instrs) == 0 {
		return
	}
	// an index loop `for i := 0; i < n; i++` written instead of a range loop: at the loop head
	// i counts the elements processed, so the index of the last element processed - what $idx
	// means - is i - 1 (only for an ascending loop whose head tests `i < ...` on a local i)
	iff, ok := h.Instrs[len(h.Instrs)-1].(*ssa.If)
	if !ok {
		return
	}
	bo, ok := iff.Cond.(*ssa.BinOp)
	if !ok || bo.Op != token.LSS {
		return
	}
	ld, ok := bo.X.(*ssa.UnOp)
	if !ok || ld.Op != token.MUL {
		return
	}
	a, ok := ld.X.(*ssa.Alloc)
	if !ok || a.Comment == "" {
		return
	}
	if b, isInt := deref(a.Type()).Underlying().(*types.Basic); !isInt || b.Info()&types.IsInteger == 0 {
		return
	}
	if la, ok := fr.laddr[a]; ok && la != nil {
		if _, init := env.st.cells[a]; init {
			env.names["G_idx"] = specVal{term: "(- " + x.cellRead(env.st, la) + " 1)", typ: tInt}
			x.vc.note(fmt.Sprintf("$idx of an index loop of %s is read as %s - 1", shortFn(fr.fn), a.Comment))
		}
	}
}

func loopMentionsVar(body map[*ssa.BasicBlock]bool, name string) bool {
	for b := range body {
		for _, ins := range b.Instrs {
			switch t := ins.(type) {
			case *ssa.Store:
				if a := rootAlloc(t.Addr); a != nil && a.Comment == name {
					return true
				}
			case *ssa.Alloc:
				if t.Comment == name {
					return true
				}
			case *ssa.UnOp:
				if a := rootAlloc(t.X); a != nil && a.Comment == name {
					return true
				}
			}
		}
	}
	return false
}

// hookKeysOfInstr adds the ghosts that the statement hooks of contract hc may assign when ins
// executes; a call of a closure of the function under verification is followed into the
// closure's body (with the closure's own hooks).
func (x *Exec) hookKeysOfInstr(hc *FuncContract, ins ssa.Instruction, keys map[string]bool, depth int) {
	addAll := func(effs []*EffectSpec) {
		for _, ef := range effs {
			keys["G|"+ef.Ghost] = true
		}
	}
	switch t := ins.(type) {
	case *ssa.MapUpdate:
		if hc != nil {
			if u, ok := t.Map.(*ssa.UnOp); ok && u.Op == token.MUL {
				if fa, ok := u.X.(*ssa.FieldAddr); ok {
					if stt, ok := deref(fa.X.Type()).Underlying().(*types.Struct); ok {
						addAll(hc.OnCall["mapupdate:"+stt.Field(fa.Field).Name()])
					}
				}
			}
		}
	case *ssa.Send:
		if hc != nil {
			addAll(hc.OnSend[chanVarName(t.Chan)])
		}
	case ssa.CallInstruction:
		c := t.Common()
		if hc != nil {
			if g, isGo := ins.(*ssa.Go); isGo {
				for _, ef := range hc.OnGo {
					if ef.Target == "" || goTargets(g, g.Parent(), ef.Target) {
						keys["G|"+ef.Ghost] = true
					}
				}
			}
			m := hc.OnCall
			if _, isDefer := ins.(*ssa.Defer); isDefer {
				m = hc.OnDefer
			}
			addAll(m[calleeShortName(c)])
			addAll(m[dynCallName(c)])
			if n, _ := elemCallName(c); n != "" {
				addAll(m[n])
			}
		}
		// a closure of the function under verification
		var cf *ssa.Function
		if f := c.StaticCallee(); f != nil && f.Parent() != nil {
			cf = f
		} else if mc, ok := c.Value.(*ssa.MakeClosure); ok {
			cf, _ = mc.Fn.(*ssa.Function)
		} else if u, ok := c.Value.(*ssa.UnOp); ok && u.Op == token.MUL {
			// f := func(){...}; f()  - the single closure stored into the local variable
			if a, ok := u.X.(*ssa.Alloc); ok && a.Referrers() != nil {
				for _, r := range *a.Referrers() {
					if st, ok := r.(*ssa.Store); ok && st.Addr == ssa.Value(a) {
						if mc, ok := st.Val.(*ssa.MakeClosure); ok {
							cf, _ = mc.Fn.(*ssa.Function)
						}
					}
				}
			}
		}
		if cf != nil && depth < 4 && cf.Blocks != nil {
			var chc *FuncContract
			if fc, ok := x.db.Funcs[cf.String()]; ok {
				chc = fc
			}
			for _, b := range cf.Blocks {
				for _, i2 := range b.Instrs {
					switch i2.(type) {
					case *ssa.MapUpdate, *ssa.Send, ssa.CallInstruction:
						x.hookKeysOfInstr(chc, i2, keys, depth+1)
					case *ssa.UnOp, *ssa.Select:
						if chc != nil {
							for _, effs := range chc.OnRecv {
								addAll(effs)
							}
						}
					}
				}
			}
		}
	}
}

func (x *Exec) havocLoop(fr *Frame, st *State, h *ssa.BasicBlock, body map[*ssa.BasicBlock]bool) {
	keys := map[string]bool{}
	cells := map[*ssa.Alloc]bool{}
	anyCall := false
	addStmtGhosts := func() {
		if c := x.hookContract(fr); c != nil {
			for _, ef := range c.OnGo {
				if ef.Target == "" {
					keys["G|"+ef.Ghost] = true
				}
			}
			for _, m := range []map[string][]*EffectSpec{c.OnRecv, c.OnSend} {
				for _, effs := range m {
					for _, ef := range effs {
						keys["G|"+ef.Ghost] = true
					}
				}
			}
		}
	}
	// ghosts assigned where an inner loop is left
	if c := fr.contract; c != nil && fr.depth == 0 {
		for i, ih := range loopHeaders(fr.fn) {
			if ih == h || !body[ih] || c.Loops[i] == nil {
				continue
			}
			for _, l := range c.Loops[i].ExitLets {
				if l.Ghost {
					keys["G|"+l.Name] = true
				}
			}
			for _, ef := range c.Loops[i].HeadEffects {
				keys["G|"+ef.Ghost] = true
			}
		}
		for i, ih := range loopHeaders(fr.fn) {
			if ih == h && c.Loops[i] != nil {
				for _, ef := range c.Loops[i].HeadEffects {
					keys["G|"+ef.Ghost] = true
				}
			}
		}
	}
	for b := range body {
		for _, ins := range b.Instrs {
			switch t := ins.(type) {
			case *ssa.Select, *ssa.Send:
				addStmtGhosts()
			case *ssa.UnOp:
				if t.Op == token.ARROW {
					addStmtGhosts()
				}
			case *ssa.Store:
				if a := rootAlloc(t.Addr); a != nil && !a.Heap {
					if _, isArr := deref(a.Type()).Underlying().(*types.Array); !isArr {
						cells[a] = true
						continue
					}
				}
				x.p.storeKeys(t.Addr, t.Val.Type(), keys)
			case *ssa.MapUpdate:
				keys[mapMemKey(t.Map.Type())] = true
				x.hookKeysOfInstr(x.hookContract(fr), ins, keys, 0)
			case *ssa.Defer:
				x.unsupp("defer inside a loop in %s", shortFn(fr.fn))
			case ssa.CallInstruction:
				if _, isGo := ins.(*ssa.Go); isGo {
					addStmtGhosts() // untargeted on-go hooks; targeted ones through hookKeysOfInstr below
				}
				if c := fr.contract; c != nil && fr.depth == 0 && len(c.OnCall) > 0 {
					for _, ef := range c.OnCall[calleeShortName(t.Common())] {
						keys["G|"+ef.Ghost] = true
					}
				}
				// hooks named after calls through variables, elements and fields, and hooks of closures
				// of this function that the call may run
				x.hookKeysOfInstr(x.hookContract(fr), ins, keys, 0)
				if _, isBuiltin := t.Common().Value.(*ssa.Builtin); !isBuiltin {
					anyCall = true
				}
				for _, k := range x.p.effects.callEffects(fr.fn, t) {
					keys[k] = true
				}
				// contracts with explicit modifies / effects
				if key, _, _ := x.staticCalleeKey(t.Common()); key != "" {
					if fc, ok := x.db.Funcs[key]; ok {
						for _, k := range x.expandModifies(fc, nil) {
							keys[k] = true
						}
						for _, ef := range fc.Effects {
							keys["G|"+ef.Ghost] = true
						}
					}
				}
				// monitors: Lock havocs guarded fields
				if m, _ := x.monitorFor(t.Common()); m != nil {
					for _, k := range x.monitorKeys(m) {
						keys[k] = true
					}
				}
			}
		}
	}
	_ = anyCall // ghost effects of (transitive) callees arrive as G| keys through the effect summaries
	var cellList []*ssa.Alloc
	for a := range cells {
		cellList = append(cellList, a)
	}
	sort.Slice(cellList, func(i, j int) bool {
		if cellList[i].Pos() != cellList[j].Pos() {
			return cellList[i].Pos() < cellList[j].Pos()
		}
		return cellList[i].Name() < cellList[j].Name()
	})
	for _, a := range cellList {
		et := deref(a.Type())
		st.cells[a] = x.freshOfType(st, "hv_"+a.Comment, et)
	}
	// objects that cannot be written by this loop keep their contents: a non-escaping local of
	// another function (this loop belongs to an inlined callee that is not one of its closures),
	// and owned fields that the loop does not store to directly
	before := map[string]string{}
	for _, k := range sortedKeys(keys) {
		if srt, ok := x.vc.memSorts[k]; ok {
			before[k] = x.memGet(st, k, srt)
		}
	}
	x.havocKeys(st, sortedKeys(keys))
	for _, o := range x.liveObjs {
		related := false
		for f := fr.fn; f != nil; f = f.Parent() {
			if f == o.owner {
				related = true
			}
		}
		if !related || (o.alloc != nil && !allocWrittenInLoop(o.alloc, body)) {
			x.preserveObj(st, o.typ, o.ptr, before)
		}
	}
	if fr.depth > 0 {
		direct := map[string]bool{}
		for b := range body {
			for _, ins := range b.Instrs {
				if stt, ok := ins.(*ssa.Store); ok {
					x.p.storeKeys(stt.Addr, stt.Val.Type(), direct)
				}
			}
		}
		for _, o := range x.owned {
			if direct[o.key] {
				continue
			}
			if old, ok := before[o.key]; ok {
				cur := x.memGet(st, o.key, x.vc.memSorts[o.key])
				if cur != old {
					x.vc.assert(fmt.Sprintf("(= (select %s %s) (select %s %s))", cur, o.ptr, old, o.ptr))
				}
			}
		}
	}
	for _, ins := range h.Instrs {
		phi, ok := ins.(*ssa.Phi)
		if !ok {
			break
		}
		v := x.vc.freshConst("hv_phi", x.vc.sortOf(phi.Type()))
		fr.vals[phi] = v
		if phi.Comment == "rangeindex" {
			x.vc.assert(fmt.Sprintf("(>= %s (- 1))", v))
		} else if x.vc.sortOf(phi.Type()) == "Int" {
			x.vc.assert(typeRange(phi.Type(), v))
		}
	}
}

func (x *Exec) staticCalleeKey(c *ssa.CallCommon) (string, *ssa.Function, bool) {
	if c.IsInvoke() {
		return c.Method.FullName(), nil, true
	}
	if f := c.StaticCallee(); f != nil {
		k := f.String()
		if f.Origin() != nil {
			if _, ok := x.db.Funcs[k]; !ok {
				k = f.Origin().String()
			}
		}
		return k, f, true
	}
	return "", nil, false
}

// loopBack: a back edge; the invariant must hold again and the variant must have decreased.
func (x *Exec) loopBack(fr *Frame, st *State, from, h *ssa.BasicBlock, idx int) {
	spec := x.loopSpec(fr, idx)
	if spec == nil || fr.depth != 0 {
		return
	}
	loopName := fmt.Sprintf("loop%d", idx)
	// phis take the value of the back edge
	saved := map[*ssa.Phi]string{}
	pi := -1
	for i, p := range h.Preds {
		if p == from {
			pi = i
		}
	}
	for _, ins := range h.Instrs {
		phi, ok := ins.(*ssa.Phi)
		if !ok {
			break
		}
		saved[phi] = fr.vals[phi]
		if pi >= 0 {
			fr.vals[phi] = x.val(fr, st, phi.Edges[pi])
		}
	}
	env := x.invEnv(fr, st)
	x.bindRangeIdx(fr, h, env)
	for _, inv := range spec.Invariants {
		if inv.Dropped || inv.Proved {
			continue
		}
		goal := x.evalBool(env, inv.Expr)
		x.addObl(st, "inv-preserved", fmt.Sprintf("%s/inv-preserved:%s/%s%s", shortFn(x.top), loopName, candPrefix(inv), inv.Label), goal, x.p.pos(from.Instrs[len(from.Instrs)-1].Pos()), inv.Text)
	}
	if spec.Decreases != nil {
		v := x.evalSpec(env, spec.Decreases.Expr)
		if v0, ok := fr.lets[fmt.Sprintf("variant:%d", idx)]; ok {
			goal := fmt.Sprintf("(and (< %s %s) (>= %s 0))", v.term, v0.term, v0.term)
			x.addObl(st, "decreases", fmt.Sprintf("%s/decreases:%s", shortFn(x.top), loopName), goal, x.p.pos(blockPos(h)), spec.Decreases.Text)
		}
	}
	for phi, v := range saved {
		fr.vals[phi] = v
	}
}

// ---------- monitors ----------

func (x *Exec) monitorFor(c *ssa.CallCommon) (*Monitor, ssa.Value) {
	if c.IsInvoke() || len(c.Args) == 0 {
		return nil, nil
	}
	f := c.StaticCallee()
	if f == nil {
		return nil, nil
	}
	n := f.String()
	if !strings.HasPrefix(n, "(*sync.Mutex).") && !strings.HasPrefix(n, "(*sync.RWMutex).") {
		return nil, nil
	}
	fa, ok := c.Args[0].(*ssa.FieldAddr)
	if !ok {
		return nil, nil
	}
	stt := deref(fa.X.Type())
	fname := stt.Underlying().(*types.Struct).Field(fa.Field).Name()
	tk := typeKey(stt)
	if nt, ok := stt.(*types.Named); ok && nt.Origin() != nil {
		tk = typeKey(nt.Origin())
	}
	for _, m := range x.db.Monitors {
		mt := expandModRel(m.Type)
		if !strings.Contains(mt, ".") && m.Pkg != "" {
			mt = m.Pkg + "." + mt
		}
		if (mt == tk || strings.HasPrefix(tk, mt+"[")) && m.Field == fname {
			return m, fa.X
		}
	}
	return nil, nil
}

func (x *Exec) monitorKeys(m *Monitor) []string {
	mt := expandModRel(m.Type)
	if !strings.Contains(mt, ".") && m.Pkg != "" {
		mt = m.Pkg + "." + mt
	}
	var out []string
	for _, g := range m.Guards {
		out = append(out, "F|"+mt+"|"+g)
	}
	return out
}

func (x *Exec) monitorCall(fr *Frame, st *State, ci ssa.CallInstruction, m *Monitor, self ssa.Value, method string) {
	q := x.val(fr, st, self)
	stt := deref(self.Type())
	su := stt.Underlying().(*types.Struct)
	env := &SpecEnv{x: x, names: map[string]specVal{}, st: st, old: fr.entryOrSelf(st)}
	if pk, ok := x.p.AllPkgs[m.Pkg]; ok {
		env.pkg = pk.Types
	}
	env.names[m.Self] = specVal{term: q, typ: self.Type()}
	switch method {
	case "Lock", "RLock":
		// other goroutines may have changed the guarded fields: havoc them at this object
		for _, g := range m.Guards {
			for i := 0; i < su.NumFields(); i++ {
				if su.Field(i).Name() == g {
					x.storeField(st, stt, i, q, x.freshOfType(st, "mon_"+g, su.Field(i).Type()))
				}
			}
		}
		for _, inv := range m.Invariants {
			x.assume(st, x.evalBool(env, inv.Expr))
		}
	case "Unlock", "RUnlock":
		if x.wantObl(m.Props) && x.mode != "lemma" {
			for _, inv := range m.Invariants {
				goal := x.evalBool(env, inv.Expr)
				ck := "mon:" + inv.Label
				x.callCount[ck]++
				x.addObl(st, "monitor", fmt.Sprintf("%s/monitor:%s@unlock#%d", shortFn(x.top), inv.Label, x.callCount[ck]), goal, x.p.pos(ci.Pos()), inv.Text)
			}
		}
	}
}

// loopSpecNames: some clause of the loop block mentions the name (as a whole word). The variable in
// `loop N (v)` is a hint for the reader; its disappearance matters only if a clause speaks about it.
func loopSpecNames(spec *LoopSpec, name string) bool {
	re := regexp.MustCompile(`(^|[^A-Za-z0-9_$.])` + regexp.QuoteMeta(name) + `([^A-Za-z0-9_]|$)`)
	for _, inv := range spec.Invariants {
		if re.MatchString(inv.Text) {
			return true
		}
	}
	return false
}
