package main

import (
	"fmt"
	"go/ast"
	"go/token"
	"go/types"
	"os"
	"sort"
	"strings"

	"golang.org/x/tools/go/ssa"
)

// ---------- symbolic state ----------

type State struct {
	reach   string
	pending []string // assumptions not yet folded into reach
	cells   map[*ssa.Alloc]string
	mem     map[string]string // memory key -> current SMT term (array symbol)
	ghost   map[string]string
	dflags  map[*ssa.Defer]string
	objN    int // snapshots only: number of objects the execution had allocated when the snapshot was taken
}

func (s *State) clone() *State {
	n := &State{reach: s.reach, pending: append([]string(nil), s.pending...),
		cells: make(map[*ssa.Alloc]string, len(s.cells)), mem: make(map[string]string, len(s.mem)),
		ghost: make(map[string]string, len(s.ghost)), dflags: make(map[*ssa.Defer]string, len(s.dflags))}
	for k, v := range s.cells {
		n.cells[k] = v
	}
	for k, v := range s.mem {
		n.mem[k] = v
	}
	for k, v := range s.ghost {
		n.ghost[k] = v
	}
	for k, v := range s.dflags {
		n.dflags[k] = v
	}
	return n
}

type LAddr struct {
	alloc *ssa.Alloc
	path  []int
}

type closureInfo struct {
	fn       *ssa.Function
	bindings []string
}

type Frame struct {
	fn           *ssa.Function
	vals         map[ssa.Value]string
	laddr        map[ssa.Value]*LAddr
	tuples       map[ssa.Value][]string
	depth        int
	caller       *Frame
	entry        *State
	lets         map[string]specVal
	phiOv        map[*ssa.Phi]string
	params       []string // terms for parameters (in order, including receiver)
	defers       []*ssa.Defer
	contract     *FuncContract
	retBlocks    int
	curInstr     ssa.Instruction
	namedResults []*ssa.Alloc
}

type Exec struct {
	immCap    map[*ssa.FreeVar]string // immutable captured variables of the closure under verification: their value
	fwCount   map[string]int          // ordinals of field-write obligations
	privSlice map[*ssa.Alloc]bool     // cache of privateSliceCell
	loopOwner *FuncContract           // contract whose loop clauses cut the loops of the function being executed
	elemIdx   string                  // index term of the `fs[i]()` call whose call-site contracts are being checked
	vc        *VC
	p         *Prog
	db        *ContractDB
	top       *ssa.Function
	topC      *FuncContract
	prop      string // property filter for obligations ("" = all)

	objCtr   int
	closures map[string]*closureInfo
	memSym   map[string]string // memory key -> SMT base symbol
	memVer   map[string]int
	memType  map[string]types.Type

	unsupported   map[string]bool
	inlineStack   []*ssa.Function
	maxDepth      int
	callCount     map[string]int
	oblNames      map[string]int
	sweepOnly     bool     // call-site sweep: no ensures of the top function
	callsites     []string // description of callsite obligations found
	mode          string
	steps         int
	overflowOn    bool
	safetyOn      bool
	inlinedFns    map[string]bool
	usedContracts map[string]bool
	usedExterns   map[string]bool
	hookFired     map[string]bool // on-call hook names that matched a call while this unit was executed
	sweepSet      map[*ssa.Function]bool
	topName       string
	liveObjs      []liveObj
	owned         []ownedLoc
	peelBody      map[*ssa.BasicBlock]bool
	lemmaInline   map[string]bool
}

// ownedLoc: a field of an object that only code handed the object may write (contract clause "owns").
type ownedLoc struct {
	ptr string
	key string
}

// liveObj is an object allocated by this execution whose address provably never leaves the
// function (and the closures it calls directly): no callee can write it.
type liveObj struct {
	ptr   string
	typ   types.Type
	owner *ssa.Function
	alloc *ssa.Alloc
}

func newExec(p *Prog, db *ContractDB) *Exec {
	x := &Exec{vc: newVC(p), p: p, db: db, closures: map[string]*closureInfo{}, memSym: map[string]string{}, memVer: map[string]int{},
		memType: map[string]types.Type{}, unsupported: map[string]bool{}, maxDepth: 3, callCount: map[string]int{}, oblNames: map[string]int{},
		inlinedFns: map[string]bool{}, usedContracts: map[string]bool{}, usedExterns: map[string]bool{}, hookFired: map[string]bool{}, fwCount: map[string]int{}}
	return x
}

func (x *Exec) unsupp(format string, a ...interface{}) {
	x.unsupported[fmt.Sprintf(format, a...)] = true
}

// ---------- reach handling ----------

func (x *Exec) assume(st *State, phi string) {
	if phi == "true" || phi == "" {
		return
	}
	for _, q := range st.pending {
		if q == phi {
			return
		}
	}
	if strings.Contains(phi, "(forall ") || strings.Contains(phi, "(exists ") {
		phi = x.vc.quantified(phi)
	}
	st.pending = append(st.pending, phi)
}

func (x *Exec) reachOf(st *State) string {
	if len(st.pending) == 0 {
		return st.reach
	}
	t := and(append([]string{st.reach}, st.pending...)...)
	st.pending = nil
	st.reach = x.vc.define("r", "Bool", t)
	return st.reach
}

// ---------- memory ----------

func (x *Exec) memSymbol(key string, sort string) string {
	if s, ok := x.memSym[key]; ok {
		return s
	}
	base := "M_" + sanitize(key)
	name := base
	for i := 2; x.vc.declared["mem:"+name]; i++ {
		name = fmt.Sprintf("%s_%d", base, i)
	}
	x.vc.declared["mem:"+name] = true
	x.memSym[key] = name
	x.vc.memSorts[key] = sort
	return name
}

// mem returns the current term of a memory component, declaring its entry version on first use.
func (x *Exec) mem(st *State, key, sort string) string {
	if t, ok := st.mem[key]; ok {
		return t
	}
	sym := x.memSymbol(key, sort)
	init := sym + "_0"
	if !x.vc.declared[init] {
		x.vc.declared[init] = true
		x.vc.decl(fmt.Sprintf("(declare-const %s %s)", init, sort))
	}
	st.mem[key] = init
	return init
}

func (x *Exec) setMem(st *State, key, sort, term string) {
	sym := x.memSymbol(key, sort)
	x.memVer[key]++
	n := fmt.Sprintf("%s_%d", sym, x.memVer[key])
	x.vc.decl(fmt.Sprintf("(declare-const %s %s)", n, sort))
	x.vc.assert(fmt.Sprintf("(= %s %s)", n, term))
	st.mem[key] = n
}

func (x *Exec) havocMem(st *State, key string) {
	sort, ok := x.vc.memSorts[key]
	if !ok {
		// never mentioned so far: its entry version is unconstrained; make sure later mentions
		// use a post-havoc symbol. We cannot know the sort yet, so record a pending havoc.
		st.mem[key] = "" // marker: havocked before first use
		return
	}
	sym := x.memSymbol(key, sort)
	x.memVer[key]++
	n := fmt.Sprintf("%s_%d", sym, x.memVer[key])
	x.vc.decl(fmt.Sprintf("(declare-const %s %s)", n, sort))
	st.mem[key] = n
}

func (x *Exec) memGet(st *State, key, sort string) string {
	if t, ok := st.mem[key]; ok && t == "" {
		x.vc.memSorts[key] = sort
		sym := x.memSymbol(key, sort)
		x.memVer[key]++
		n := fmt.Sprintf("%s_%d", sym, x.memVer[key])
		x.vc.decl(fmt.Sprintf("(declare-const %s %s)", n, sort))
		st.mem[key] = n
		return n
	}
	return x.mem(st, key, sort)
}

func (x *Exec) fieldArraySort(ft types.Type) string {
	return "(Array Ptr " + x.vc.sortOf(ft) + ")"
}

// loadField reads field i of the struct of type st at base pointer term p.
func (x *Exec) loadField(s *State, structType types.Type, i int, p string) string {
	stt := structType.Underlying().(*types.Struct)
	ft := stt.Field(i).Type()
	if _, ok := ft.Underlying().(*types.Struct); ok {
		return x.loadStruct(s, ft, fmt.Sprintf("(pfld %s %d)", p, x.vc.fieldID(structType, i)))
	}
	key := fieldMemKey(structType, i)
	m := x.memGet(s, key, x.fieldArraySort(ft))
	x.memType[key] = ft
	return fmt.Sprintf("(select %s %s)", m, p)
}

func (x *Exec) loadStruct(s *State, t types.Type, p string) string {
	stt := t.Underlying().(*types.Struct)
	parts := make([]string, stt.NumFields())
	for i := range parts {
		parts[i] = x.loadField(s, t, i, p)
	}
	return x.vc.mkStruct(t, parts)
}

func (x *Exec) storeField(s *State, structType types.Type, i int, p, v string) {
	stt := structType.Underlying().(*types.Struct)
	ft := stt.Field(i).Type()
	if _, ok := ft.Underlying().(*types.Struct); ok {
		x.storeStruct(s, ft, fmt.Sprintf("(pfld %s %d)", p, x.vc.fieldID(structType, i)), v)
		return
	}
	key := fieldMemKey(structType, i)
	srt := x.fieldArraySort(ft)
	m := x.memGet(s, key, srt)
	x.memType[key] = ft
	x.setMem(s, key, srt, fmt.Sprintf("(store %s %s %s)", m, p, v))
}

func (x *Exec) storeStruct(s *State, t types.Type, p, v string) {
	stt := t.Underlying().(*types.Struct)
	v = x.vc.define("sv", x.vc.sortOf(t), v)
	for i := 0; i < stt.NumFields(); i++ {
		x.storeField(s, t, i, p, x.vc.fieldOf(t, i, v))
	}
}

// load reads a value of type t at pointer term p (p is not a syntactic field address).
func (x *Exec) load(s *State, t types.Type, p string) string {
	if _, ok := t.Underlying().(*types.Struct); ok {
		return x.loadStruct(s, t, p)
	}
	key := cellMemKey(t)
	m := x.memGet(s, key, x.fieldArraySort(t))
	x.memType[key] = t
	base := fmt.Sprintf("(select %s %s)", m, p)
	// dispatch over escaping scalar fields of the same type
	out := map[string]bool{}
	x.p.addEscFieldsOfType(t, out)
	if len(out) > 0 && !isSyntacticNonField(p) {
		keys := sortedKeys(out)
		for _, k := range keys {
			fm := x.memGet(s, k, x.fieldArraySort(t))
			fid := x.fieldIDForKey(k)
			base = fmt.Sprintf("(ite (and ((_ is pfld) %s) (= (pfld_k %s) %d)) (select %s (pfld_base %s)) %s)", p, p, fid, fm, p, base)
		}
	}
	return base
}

func isSyntacticNonField(p string) bool {
	return strings.HasPrefix(p, "(pelem ") || strings.HasPrefix(p, "(pobj ") || strings.HasPrefix(p, "(pglob ")
}

func (x *Exec) fieldIDForKey(memKey string) int {
	// memKey = F|type|field ; fieldIDs keyed by "type.field"
	parts := strings.SplitN(memKey, "|", 3)
	k := parts[1] + "." + parts[2]
	if id, ok := x.vc.fieldIDs[k]; ok {
		return id
	}
	id := len(x.vc.fieldIDs) + 1
	x.vc.fieldIDs[k] = id
	return id
}

func (x *Exec) store(s *State, t types.Type, p, v string) {
	if _, ok := t.Underlying().(*types.Struct); ok {
		x.storeStruct(s, t, p, v)
		return
	}
	out := map[string]bool{}
	x.p.addEscFieldsOfType(t, out)
	if len(out) > 0 && !isSyntacticNonField(p) {
		for _, k := range sortedKeys(out) {
			srt := x.fieldArraySort(t)
			fm := x.memGet(s, k, srt)
			fid := x.fieldIDForKey(k)
			cond := fmt.Sprintf("(and ((_ is pfld) %s) (= (pfld_k %s) %d))", p, p, fid)
			x.setMem(s, k, srt, fmt.Sprintf("(ite %s (store %s (pfld_base %s) %s) %s)", cond, fm, p, v, fm))
		}
	}
	key := cellMemKey(t)
	srt := x.fieldArraySort(t)
	m := x.memGet(s, key, srt)
	x.memType[key] = t
	x.setMem(s, key, srt, fmt.Sprintf("(store %s %s %s)", m, p, v))
}

func sortedKeys(m map[string]bool) []string {
	out := make([]string, 0, len(m))
	for k := range m {
		out = append(out, k)
	}
	sort.Strings(out)
	return out
}

// map memories
func (x *Exec) mapSorts(mt types.Type) (ks, vs string) {
	m := mt.Underlying().(*types.Map)
	return x.vc.sortOf(m.Key()), x.vc.sortOf(m.Elem())
}
func (x *Exec) mapHas(s *State, mt types.Type) (key, sort, term string) {
	ks, _ := x.mapSorts(mt)
	key = mapMemKey(mt) + "#has"
	sort = "(Array Int (Array " + ks + " Bool))"
	return key, sort, x.memGet(s, key, sort)
}
func (x *Exec) mapVal(s *State, mt types.Type) (key, sort, term string) {
	ks, vs := x.mapSorts(mt)
	key = mapMemKey(mt) + "#val"
	sort = "(Array Int (Array " + ks + " " + vs + "))"
	return key, sort, x.memGet(s, key, sort)
}
func (x *Exec) mapLen(s *State, mt types.Type) (key, sort, term string) {
	key = mapMemKey(mt) + "#len"
	sort = "(Array Int Int)"
	return key, sort, x.memGet(s, key, sort)
}

// havocKeys havocs the given memory keys (map keys expand to their three components).
func (x *Exec) havocKeys(st *State, keys []string) {
	for _, k := range keys {
		switch {
		case strings.HasPrefix(k, "M|"):
			for _, suf := range []string{"#has", "#val", "#len"} {
				x.havocMem(st, k+suf)
			}
		case strings.HasPrefix(k, "G|"):
			name := k[2:]
			if g, ok := x.db.Ghosts[name]; ok {
				t := x.resolveTypeExpr(g.Type, nil)
				st.ghost[name] = x.vc.freshConst("ghost_"+name, x.vc.sortOf(t))
			}
		case strings.HasPrefix(k, "X|"):
		default:
			x.havocMem(st, k)
		}
	}
}

// havocKeysCall havocs the memory a call may write, but keeps the contents of objects that
// cannot have escaped to the callee.
func (x *Exec) havocKeysCall(st *State, keys []string, args []string) {
	if len(x.liveObjs) == 0 && len(x.owned) == 0 && !x.hasPrivateSlices(st) {
		x.havocKeys(st, keys)
		return
	}
	before := map[string]string{}
	for _, k := range keys {
		if srt, ok := x.vc.memSorts[k]; ok {
			before[k] = x.memGet(st, k, srt)
		}
	}
	x.havocKeys(st, keys)
	for _, o := range x.liveObjs {
		x.preserveObj(st, o.typ, o.ptr, before)
	}
	x.preservePrivateSlices(st, before)
	for _, o := range x.owned {
		handed := false
		for _, a := range args {
			if a == o.ptr {
				handed = true
			}
		}
		if handed {
			continue
		}
		if old, ok := before[o.key]; ok {
			cur := x.memGet(st, o.key, x.vc.memSorts[o.key])
			if cur != old {
				x.vc.assert(fmt.Sprintf("(= (select %s %s) (select %s %s))", cur, o.ptr, old, o.ptr))
			}
		}
	}
}

// private slice variables (see privateSliceCell): a callee cannot write their elements
func (x *Exec) hasPrivateSlices(st *State) bool {
	for a := range st.cells {
		if x.isPrivateSlice(a) {
			return true
		}
	}
	return false
}

func (x *Exec) isPrivateSlice(a *ssa.Alloc) bool {
	if os.Getenv("GOVC_NO_PRIVSLICE") != "" {
		return false
	}
	if x.privSlice == nil {
		x.privSlice = map[*ssa.Alloc]bool{}
	}
	v, ok := x.privSlice[a]
	if !ok {
		v = privateSliceCell(a)
		x.privSlice[a] = v
	}
	return v
}

func (x *Exec) preservePrivateSlices(st *State, before map[string]string) {
	var cells []*ssa.Alloc
	for a := range st.cells {
		if x.isPrivateSlice(a) {
			cells = append(cells, a)
		}
	}
	sort.Slice(cells, func(i, j int) bool { return cells[i].Pos() < cells[j].Pos() })
	for _, a := range cells {
		et := deref(a.Type()).Underlying().(*types.Slice).Elem()
		if _, isStruct := et.Underlying().(*types.Struct); isStruct {
			continue
		}
		k := cellMemKey(et)
		old, ok := before[k]
		if !ok {
			continue
		}
		cur := x.memGet(st, k, x.vc.memSorts[k])
		if cur == old {
			continue
		}
		sl := st.cells[a]
		q := x.vc.fresh("q_pe")
		x.assume(st, fmt.Sprintf("(forall ((%s Int)) (= (select %s (pelem (sl_arr %s) %s)) (select %s (pelem (sl_arr %s) %s))))", q, cur, sl, q, old, sl, q))
	}
}

func (x *Exec) preserveObj(st *State, t types.Type, p string, before map[string]string) {
	switch u := t.Underlying().(type) {
	case *types.Struct:
		for i := 0; i < u.NumFields(); i++ {
			ft := u.Field(i).Type()
			if _, ok := ft.Underlying().(*types.Struct); ok {
				x.preserveObj(st, ft, fmt.Sprintf("(pfld %s %d)", p, x.vc.fieldID(t, i)), before)
				continue
			}
			k := fieldMemKey(t, i)
			if old, ok := before[k]; ok {
				cur := x.memGet(st, k, x.vc.memSorts[k])
				if cur != old {
					x.vc.assert(fmt.Sprintf("(= (select %s %s) (select %s %s))", cur, p, old, p))
				}
			}
		}
	case *types.Array:
	default:
		k := cellMemKey(t)
		if old, ok := before[k]; ok {
			cur := x.memGet(st, k, x.vc.memSorts[k])
			if cur != old {
				x.vc.assert(fmt.Sprintf("(= (select %s %s) (select %s %s))", cur, p, old, p))
			}
		}
	}
}

// ---------- local cells ----------

func (x *Exec) cellRead(st *State, la *LAddr) string {
	v, ok := st.cells[la.alloc]
	if !ok {
		v = x.vc.zero(la.alloc.Type().(*types.Pointer).Elem())
		st.cells[la.alloc] = v
	}
	t := la.alloc.Type().(*types.Pointer).Elem()
	for _, f := range la.path {
		v = x.vc.fieldOf(t, f, v)
		t = t.Underlying().(*types.Struct).Field(f).Type()
	}
	return v
}

func (x *Exec) cellWrite(st *State, la *LAddr, nv string) {
	t := la.alloc.Type().(*types.Pointer).Elem()
	if len(la.path) == 0 {
		st.cells[la.alloc] = x.vc.define("c_"+la.alloc.Comment, x.vc.sortOf(t), nv)
		return
	}
	cur, ok := st.cells[la.alloc]
	if !ok {
		cur = x.vc.zero(t)
	}
	var rec func(t types.Type, v string, path []int) string
	rec = func(t types.Type, v string, path []int) string {
		if len(path) == 0 {
			return nv
		}
		ft := t.Underlying().(*types.Struct).Field(path[0]).Type()
		inner := rec(ft, x.vc.fieldOf(t, path[0], v), path[1:])
		return x.vc.withField(t, path[0], v, inner)
	}
	st.cells[la.alloc] = x.vc.define("c_"+la.alloc.Comment, x.vc.sortOf(t), rec(t, cur, la.path))
}

// ---------- values ----------

func (x *Exec) val(fr *Frame, st *State, v ssa.Value) string {
	if t, ok := fr.vals[v]; ok {
		return t
	}
	switch c := v.(type) {
	case *ssa.Const:
		return x.vc.constTerm(c.Value, c.Type())
	case *ssa.Global:
		return fmt.Sprintf("(pglob %d)", x.vc.globID(c.String()))
	case *ssa.Function:
		return x.fnConst(c)
	case *ssa.Builtin:
		return "fn_nil"
	}
	if la, ok := fr.laddr[v]; ok && la != nil {
		x.unsupp("address of local %s used as value in %s", la.alloc.Comment, shortFn(fr.fn))
		return x.vc.freshConst("laddr", "Ptr")
	}
	// value not computed (e.g. defined in an unreached block): unconstrained
	t := x.vc.freshConst("undef", x.vc.sortOf(v.Type()))
	fr.vals[v] = t
	return t
}

func (x *Exec) fnConst(f *ssa.Function) string {
	n := "fnc_" + sanitize(f.String())
	if !x.vc.declared[n] {
		x.vc.declared[n] = true
		x.vc.decl(fmt.Sprintf("(declare-const %s Fn)", n))
		x.vc.assert(fmt.Sprintf("(not (= %s fn_nil))", n))
		x.closures[n] = &closureInfo{fn: f}
	}
	return n
}

// typeRange: assumption that an integer term lies in its type's range.
func typeRange(t types.Type, term string) string {
	b, ok := t.Underlying().(*types.Basic)
	if !ok || b.Info()&types.IsInteger == 0 {
		return "true"
	}
	lo, hi := intBounds(b)
	return fmt.Sprintf("(and (<= %s %s) (<= %s %s))", lo, term, term, hi)
}

func intBounds(b *types.Basic) (string, string) {
	switch b.Kind() {
	case types.Int8:
		return "(- 128)", "127"
	case types.Int16:
		return "(- 32768)", "32767"
	case types.Int32:
		return "(- 2147483648)", "2147483647"
	case types.Int, types.Int64, types.UntypedInt:
		return "(- 9223372036854775808)", "9223372036854775807"
	case types.Uint8:
		return "0", "255"
	case types.Uint16:
		return "0", "65535"
	case types.Uint32:
		return "0", "4294967295"
	case types.Uint, types.Uint64, types.Uintptr:
		return "0", "18446744073709551615"
	}
	return "(- 9223372036854775808)", "9223372036854775807"
}

// freshOfType: a fresh unconstrained value of a Go type with its basic well-formedness facts
// (range of integers, shape of slice headers). No "oldness" facts: the value may be one of the
// objects allocated during this symbolic execution (e.g. returned by a callee it escaped to).
func (x *Exec) freshOfType(st *State, prefix string, t types.Type) string {
	srt := x.vc.sortOf(t)
	n := x.vc.freshConst(prefix, srt)
	x.wf(st, t, n, "havoc")
	if st != nil {
		x.notFuture(st, t, n, 0)
	}
	return n
}

// paramOfType: like freshOfType, plus the fact that a value that exists at function entry cannot
// be one of the objects allocated later by this execution.
func (x *Exec) paramOfType(st *State, prefix string, t types.Type) string {
	srt := x.vc.sortOf(t)
	n := x.vc.freshConst(prefix, srt)
	x.wf(st, t, n, "param")
	return n
}

// notFuture: a value that exists now cannot refer to an object this execution allocates later
// (fresh objects get the ids -(objCtr+1), -(objCtr+2), ... in allocation order).
func (x *Exec) notFuture(st *State, t types.Type, term string, depth int) {
	if depth > 2 {
		return
	}
	switch u := t.Underlying().(type) {
	case *types.Slice:
		x.assume(st, fmt.Sprintf("(>= (sl_arr %s) (- %d))", term, x.objCtr))
	case *types.Pointer:
		x.assume(st, fmt.Sprintf("(or (not ((_ is pobj) %s)) (>= (pobj_id %s) (- %d)))", term, term, x.objCtr))
	case *types.Struct:
		for i := 0; i < u.NumFields(); i++ {
			switch u.Field(i).Type().Underlying().(type) {
			case *types.Slice, *types.Pointer, *types.Struct:
				x.notFuture(st, u.Field(i).Type(), x.vc.fieldOf(t, i, term), depth+1)
			}
		}
	}
}

// wf asserts well-formedness facts of a value. mode: "param" and "havoc" constrain a fresh
// symbol and are asserted globally; "load" constrains a term read from memory and is assumed on
// the current path.
func (x *Exec) wf(st *State, t types.Type, term string, mode string) {
	var phi string
	switch x.vc.sortOf(t) {
	case "Int":
		if _, ok := t.Underlying().(*types.Basic); ok {
			phi = typeRange(t, term)
		} else {
			return
		}
	case "Slice":
		phi = fmt.Sprintf("(and (>= (sl_off %s) 0) (<= 0 (sl_len %s)) (<= (sl_len %s) (sl_cap %s)) (<= (sl_cap %s) 281474976710656))", term, term, term, term, term)
		if mode == "param" {
			phi = fmt.Sprintf("(and %s (>= (sl_arr %s) 0))", phi, term)
		}
	case "Ptr":
		if mode != "param" {
			return
		}
		phi = fmt.Sprintf("(oldptr %s)", term)
	default:
		return
	}
	if mode != "load" {
		x.vc.assert(phi)
	} else {
		x.assume(st, phi)
	}
}

// ---------- obligations ----------

func (x *Exec) addObl(st *State, kind, name, goal, pos, text string) *Obl {
	// loop clauses of a contract that belongs to other properties only: they are proved by those
	// properties' checks; here (a call-site sweep for another property) they are only assumed
	if (kind == "inv-entry" || kind == "inv-preserved" || kind == "decreases" || kind == "loop-exit") && x.loopOwner != nil && x.prop != "" && !x.wantObl(x.loopOwner.Props) {
		return &Obl{Name: name, Kind: kind}
	}
	if c := x.oblNames[name]; c > 0 {
		x.oblNames[name] = c + 1
		name = fmt.Sprintf("%s~%d", name, c+1)
	} else {
		x.oblNames[name] = 1
	}
	reach := x.reachOf(st)
	var extra []string
	if strings.HasPrefix(goal, "(forall ((") {
		goal, extra = x.vc.skolemize(goal)
	}
	o := &Obl{Name: name, Kind: kind, Reach: reach, Goal: goal, Pos: pos, Text: text, Fn: x.topName, Extra: extra}
	x.vc.obls = append(x.vc.obls, o)
	return o
}

func shortFn(fn *ssa.Function) string {
	if fn == nil || fn.Signature == nil {
		return "lemma"
	}
	s := fn.String()
	s = strings.ReplaceAll(s, modPath+"/", "")
	s = strings.ReplaceAll(s, modPath+".", "regclient.")
	s = strings.ReplaceAll(s, modPath, "regclient")
	return s
}

// ---------- function execution ----------

type edgeIn struct {
	pred *ssa.BasicBlock // nil for function entry
	st   *State
}

type retInfo struct {
	st   *State
	vals []string
}

func isBackEdge(from, to *ssa.BasicBlock) bool { return to.Dominates(from) }

// loopBlocks returns the blocks of the natural loop with header h.
func loopBlocks(h *ssa.BasicBlock) map[*ssa.BasicBlock]bool {
	body := map[*ssa.BasicBlock]bool{h: true}
	var stack []*ssa.BasicBlock
	for _, p := range h.Preds {
		if isBackEdge(p, h) {
			if !body[p] {
				body[p] = true
				stack = append(stack, p)
			}
		}
	}
	for len(stack) > 0 {
		b := stack[len(stack)-1]
		stack = stack[:len(stack)-1]
		for _, p := range b.Preds {
			if !body[p] {
				body[p] = true
				stack = append(stack, p)
			}
		}
	}
	return body
}

func isLoopHeader(b *ssa.BasicBlock) bool {
	for _, p := range b.Preds {
		if isBackEdge(p, b) {
			return true
		}
	}
	return false
}

// loopOrdinal: index of the loop header among the function's loop headers in source order.
func loopHeaders(fn *ssa.Function) []*ssa.BasicBlock {
	var hs []*ssa.BasicBlock
	for _, b := range fn.Blocks {
		if isLoopHeader(b) {
			hs = append(hs, b)
		}
	}
	sort.SliceStable(hs, func(i, j int) bool { return blockPos(hs[i]) < blockPos(hs[j]) })
	return hs
}

func blockPos(b *ssa.BasicBlock) token.Pos {
	// position of the loop: smallest valid position among the header's and its body's instructions
	best := token.NoPos
	for blk := range loopBlocks(b) {
		for _, ins := range blk.Instrs {
			if p := ins.Pos(); p.IsValid() && (best == token.NoPos || p < best) {
				best = p
			}
		}
	}
	return best
}

func rpo(fn *ssa.Function) []*ssa.BasicBlock {
	seen := map[*ssa.BasicBlock]bool{}
	var order []*ssa.BasicBlock
	var visit func(b *ssa.BasicBlock)
	visit = func(b *ssa.BasicBlock) {
		seen[b] = true
		for _, s := range b.Succs {
			if !seen[s] && !isBackEdge(b, s) {
				visit(s)
			}
		}
		order = append(order, b)
	}
	visit(fn.Blocks[0])
	// blocks only reachable through back edges cannot exist (header dominates)
	for i, j := 0, len(order)-1; i < j; i, j = i+1, j-1 {
		order[i], order[j] = order[j], order[i]
	}
	return order
}

// execFunc symbolically executes fn from state st. It returns the merged state at normal
// returns (nil if no return is reachable) and the result terms.
func (x *Exec) execFunc(fr *Frame, st *State) (*State, []string) {
	fn := fr.fn
	if fn.Blocks == nil {
		x.unsupp("no body for %s", fn.String())
		return st, nil
	}
	if fn.Recover != nil {
		// recover blocks are only reachable through panics, which are abnormal exits here
	}
	// topological order must respect all forward edges: use RPO over forward edges
	order := rpo(fn)
	// check reducibility: every retreating edge must be a back edge to a dominator
	index := map[*ssa.BasicBlock]int{}
	for i, b := range order {
		index[b] = i
	}
	for _, b := range order {
		for _, s := range b.Succs {
			if index[s] <= index[b] && !isBackEdge(b, s) {
				x.unsupp("irreducible control flow in %s", fn.String())
			}
		}
	}
	in := map[*ssa.BasicBlock][]edgeIn{}
	in[fn.Blocks[0]] = []edgeIn{{nil, st}}
	var rets []retInfo
	headers := loopHeaders(fn)
	loopIdx := map[*ssa.BasicBlock]int{}
	for i, h := range headers {
		loopIdx[h] = i
	}
	for _, b := range order {
		edges := in[b]
		if len(edges) == 0 {
			continue
		}
		if debugExec {
			fmt.Printf("exec %s block %d edges=%d\n", fn.Name(), b.Index, len(edges))
		}
		cur := x.mergeEdges(fr, b, edges)
		// exit-let: b is where a loop with exit-lets is left (a successor of a loop block outside
		// the loop): bind the names in the merged state
		if fr.contract != nil && fr.depth == 0 {
			for _, h := range headers {
				spec := fr.contract.Loops[loopIdx[h]]
				if spec == nil || len(spec.ExitLets) == 0 {
					continue
				}
				body := loopBlocks(h)
				isExit := false
				for _, p := range b.Preds {
					if body[p] && !body[b] {
						isExit = true
					}
				}
				if isExit {
					env := x.invEnv(fr, cur)

					for _, l := range spec.ExitLets {
						v := x.evalSpec(env, l.Expr)
						if l.Ghost {
							cur.ghost[l.Name] = x.vc.define("ghost_"+l.Name, x.ghostSort(l.Name), v.term)
							continue
						}
						v.term = x.vc.define("exitlet_"+l.Name, x.vc.sortOf(v.typ), v.term)
						fr.lets[l.Name] = v
					}
				}
			}
		}
		if isLoopHeader(b) {
			if pureHeader(b) {
				// peel the zero-iteration case: run the (side-effect free) header once on the
				// un-havocked entry state and keep only the edges that leave the loop
				x.peelBody = loopBlocks(b)
				x.execBlock(fr, cur.clone(), b, in, &rets, loopIdx)
				x.peelBody = nil
			}
			x.loopCut(fr, cur, b, loopIdx[b], edges)
		}
		x.execBlock(fr, cur, b, in, &rets, loopIdx)
	}
	if len(rets) == 0 {
		return nil, nil
	}
	fr.retBlocks = len(rets)
	// merge returns
	var states []*State
	for _, r := range rets {
		states = append(states, r.st)
	}
	exit := x.mergeStates(states, "ret")
	nres := fn.Signature.Results().Len()
	results := make([]string, nres)
	for i := 0; i < nres; i++ {
		rt := fn.Signature.Results().At(i).Type()
		var terms []string
		for _, r := range rets {
			terms = append(terms, r.vals[i])
		}
		results[i] = x.mergeTerms(states, terms, x.vc.sortOf(rt), "res")
	}
	return exit, results
}

// mergeTerms builds the ite-chain over the edge reaches.
func (x *Exec) mergeTerms(states []*State, terms []string, sort, prefix string) string {
	same := true
	for _, t := range terms[1:] {
		if t != terms[0] {
			same = false
		}
	}
	if same {
		return terms[0]
	}
	t := terms[len(terms)-1]
	for i := len(terms) - 2; i >= 0; i-- {
		t = ite(x.reachOf(states[i]), terms[i], t)
	}
	return x.vc.define(prefix, sort, t)
}

func (x *Exec) mergeStates(states []*State, tag string) *State {
	if len(states) == 1 {
		return states[0]
	}
	var reaches []string
	for _, s := range states {
		reaches = append(reaches, x.reachOf(s))
	}
	out := &State{cells: map[*ssa.Alloc]string{}, mem: map[string]string{}, ghost: map[string]string{}, dflags: map[*ssa.Defer]string{}}
	out.reach = x.vc.define("r", "Bool", or(reaches...))
	// cells
	cellKeys := map[*ssa.Alloc]bool{}
	for _, s := range states {
		for k := range s.cells {
			cellKeys[k] = true
		}
	}
	var allocs []*ssa.Alloc
	for k := range cellKeys {
		allocs = append(allocs, k)
	}
	sort.Slice(allocs, func(i, j int) bool {
		if allocs[i].Pos() != allocs[j].Pos() {
			return allocs[i].Pos() < allocs[j].Pos()
		}
		return allocs[i].Name() < allocs[j].Name()
	})
	for _, a := range allocs {
		var terms []string
		var sts []*State
		for _, s := range states {
			if t, ok := s.cells[a]; ok {
				terms = append(terms, t)
				sts = append(sts, s)
			}
		}
		out.cells[a] = x.mergeTerms(sts, terms, x.vc.sortOf(a.Type().(*types.Pointer).Elem()), "c_"+a.Comment)
	}
	// memories
	memKeys := map[string]bool{}
	for _, s := range states {
		for k := range s.mem {
			memKeys[k] = true
		}
	}
	for _, k := range sortedKeys(memKeys) {
		srt, known := x.vc.memSorts[k]
		if !known {
			// havocked-before-use in some branch: stays havocked
			out.mem[k] = ""
			continue
		}
		var terms []string
		for _, s := range states {
			terms = append(terms, x.memGet(s, k, srt))
		}
		out.mem[k] = x.mergeTerms(states, terms, srt, x.memSymbol(k, srt)+"_m")
	}
	// ghost
	gk := map[string]bool{}
	for _, s := range states {
		for k := range s.ghost {
			gk[k] = true
		}
	}
	for _, k := range sortedKeys(gk) {
		var terms []string
		for _, s := range states {
			terms = append(terms, x.ghostGet(s, k))
		}
		out.ghost[k] = x.mergeTerms(states, terms, x.ghostSort(k), "ghost_"+k)
	}
	// defer flags
	dk := map[*ssa.Defer]bool{}
	for _, s := range states {
		for k := range s.dflags {
			dk[k] = true
		}
	}
	for d := range dk {
		var terms []string
		for _, s := range states {
			if t, ok := s.dflags[d]; ok {
				terms = append(terms, t)
			} else {
				terms = append(terms, "false")
			}
		}
		out.dflags[d] = x.mergeTerms(states, terms, "Bool", "dflag")
	}
	return out
}

func (x *Exec) ghostSort(name string) string {
	if strings.HasPrefix(name, "held|") {
		return "Bool"
	}
	if g, ok := x.db.Ghosts[name]; ok {
		return x.vc.sortOf(x.resolveTypeExpr(g.Type, nil))
	}
	return "Int"
}

func (x *Exec) ghostGet(st *State, name string) string {
	if t, ok := st.ghost[name]; ok {
		return t
	}
	n := "ghost0_" + sanitize(name)
	if !x.vc.declared[n] {
		x.vc.declared[n] = true
		x.vc.decl(fmt.Sprintf("(declare-const %s %s)", n, x.ghostSort(name)))
	}
	st.ghost[name] = n
	return n
}

func (x *Exec) mergeEdges(fr *Frame, b *ssa.BasicBlock, edges []edgeIn) *State {
	var states []*State
	for _, e := range edges {
		states = append(states, e.st)
	}
	// phis first (they read the incoming edge states)
	for _, ins := range b.Instrs {
		phi, ok := ins.(*ssa.Phi)
		if !ok {
			break
		}
		var terms []string
		for _, e := range edges {
			idx := -1
			for i, p := range b.Preds {
				if p == e.pred {
					idx = i
					break
				}
			}
			if idx < 0 {
				terms = append(terms, x.vc.zero(phi.Type()))
				continue
			}
			terms = append(terms, x.val(fr, e.st, phi.Edges[idx]))
		}
		fr.vals[phi] = x.mergeTerms(states, terms, x.vc.sortOf(phi.Type()), "phi")
	}
	if len(states) == 1 {
		return states[0].clone()
	}
	return x.mergeStates(states, "b")
}

func (x *Exec) execBlock(fr *Frame, st *State, b *ssa.BasicBlock, in map[*ssa.BasicBlock][]edgeIn, rets *[]retInfo, loopIdx map[*ssa.BasicBlock]int) {
	for _, ins := range b.Instrs {
		x.steps++
		fr.curInstr = ins
		switch t := ins.(type) {
		case *ssa.Phi:
			continue
		case *ssa.If:
			c := x.val(fr, st, t.Cond)
			c = x.vc.define("cond", "Bool", c)
			r := x.reachOf(st)
			if debugExec {
				fmt.Printf("  if %s reach %s (%s) @%s in %s\n", c, r, t.Cond.String(), x.p.pos(t.Cond.Pos()), fn0(fr))
			}
			st1 := st.clone()
			st1.reach = x.vc.define("r", "Bool", and(r, c))
			st2 := st
			st2.reach = x.vc.define("r", "Bool", and(r, not(c)))
			x.addEdge(fr, b, b.Succs[0], st1, in, loopIdx)
			x.addEdge(fr, b, b.Succs[1], st2, in, loopIdx)
			return
		case *ssa.Jump:
			x.addEdge(fr, b, b.Succs[0], st, in, loopIdx)
			return
		case *ssa.Return:
			vals := make([]string, len(t.Results))
			for i, r := range t.Results {
				vals[i] = x.val(fr, st, r)
			}
			*rets = append(*rets, retInfo{st, vals})
			return
		case *ssa.Panic:
			return
		default:
			x.execInstr(fr, st, ins)
			if st.reach == "false" {
				return
			}
		}
	}
}

// pureHeader: the loop header has no calls, stores or other effects, and none of the values it
// defines is used outside the loop (so it can be executed twice).
func pureHeader(h *ssa.BasicBlock) bool {
	body := loopBlocks(h)
	for _, ins := range h.Instrs {
		switch ins.(type) {
		case *ssa.Phi, *ssa.BinOp, *ssa.If, *ssa.Jump, *ssa.DebugRef, *ssa.Extract, *ssa.Field, *ssa.FieldAddr, *ssa.Convert, *ssa.ChangeType:
		case *ssa.UnOp:
			if ins.(*ssa.UnOp).Op.String() == "<-" {
				return false
			}
		case *ssa.Store:
			// a store to a plain local cell (the hidden range index) only changes the cloned state
			if a := rootAlloc(ins.(*ssa.Store).Addr); a == nil || a.Heap {
				return false
			}
		case *ssa.Call:
			c := ins.(*ssa.Call)
			if bi, ok := c.Call.Value.(*ssa.Builtin); !ok || (bi.Name() != "len" && bi.Name() != "cap") {
				return false
			}
		default:
			return false
		}
		if v, ok := ins.(ssa.Value); ok {
			if refs := v.Referrers(); refs != nil {
				for _, r := range *refs {
					if !body[r.Block()] {
						return false
					}
				}
			}
		}
	}
	return true
}

func (x *Exec) addEdge(fr *Frame, from, to *ssa.BasicBlock, st *State, in map[*ssa.BasicBlock][]edgeIn, loopIdx map[*ssa.BasicBlock]int) {
	x.exitAsserts(fr, from, to, st, loopIdx)
	if x.peelBody != nil {
		if x.peelBody[to] {
			return // the peeled pass only follows edges that leave the loop
		}
		in[to] = append(in[to], edgeIn{from, st})
		return
	}
	if isBackEdge(from, to) {
		x.loopBack(fr, st, from, to, loopIdx[to])
		return
	}
	in[to] = append(in[to], edgeIn{from, st})
}

// exitAsserts: the edge leaves a loop with exit-assert clauses towards the block that follows the
// loop (exhausted range / false condition, or a break) - not a return from inside the loop: the
// clauses are obligations in the state carried by that edge.
func (x *Exec) exitAsserts(fr *Frame, from, to *ssa.BasicBlock, st *State, loopIdx map[*ssa.BasicBlock]int) {
	if fr.depth != 0 || fr.contract == nil || from == nil || !x.wantObl(fr.contract.Props) {
		return
	}
	for h, idx := range loopIdx {
		spec := fr.contract.Loops[idx]
		if spec == nil || len(spec.ExitAsserts) == 0 {
			continue
		}
		body := loopBlocks(h)
		if body[to] {
			continue
		}
		if !leavesLoopNormally(fr.fn, h, body, from, to) {
			continue
		}
		env := x.invEnv(fr, st)
		for _, c := range spec.ExitAsserts {
			x.addObl(st, "loop-exit", fmt.Sprintf("%s/loop-exit:loop%d/%s", shortFn(x.top), idx, c.Label), x.evalBool(env, c.Expr), x.p.pos(blockPos(to)), c.Text)
		}
	}
}

// leavesLoopNormally: block `to` (outside the loop) is code that follows the loop statement in the
// source - the loop ran out, its condition failed or a break was taken - and not a return or
// panic written inside the loop. Decided on the syntax: the loop statement is the smallest
// for/range statement that contains every instruction of the natural loop; `to` follows it when
// its first positioned instruction lies at or behind the statement's end.
func leavesLoopNormally(fn *ssa.Function, h *ssa.BasicBlock, body map[*ssa.BasicBlock]bool, from, to *ssa.BasicBlock) bool {
	syn := fn.Syntax()
	if syn == nil {
		// no syntax (synthetic): fall back to "successor of the header"
		if !body[from] {
			return false
		}
		for _, s := range h.Succs {
			if s == to {
				return true
			}
		}
		return false
	}
	lo, hi := token.NoPos, token.NoPos
	for b := range body {
		for _, ins := range b.Instrs {
			if p := ins.Pos(); p.IsValid() {
				if !lo.IsValid() || p < lo {
					lo = p
				}
				if p > hi {
					hi = p
				}
			}
		}
	}
	if !lo.IsValid() {
		return false
	}
	var best ast.Node
	ast.Inspect(syn, func(n ast.Node) bool {
		if n == nil {
			return false
		}
		if _, isLit := n.(*ast.FuncLit); isLit && n != syn {
			return false // another function
		}
		switch n.(type) {
		case *ast.ForStmt, *ast.RangeStmt:
			if n.Pos() <= lo && hi < n.End() {
				if best == nil || (n.End()-n.Pos()) < (best.End()-best.Pos()) {
					best = n
				}
			}
		}
		return true
	})
	if best == nil {
		return false
	}
	// the edge starts in the loop: in its natural body, or in a block written inside the loop
	// statement that cannot come back to the head (statements in front of a break)
	if !body[from] {
		inside := false
		for _, ins := range from.Instrs {
			if p := ins.Pos(); p.IsValid() {
				inside = best.Pos() <= p && p < best.End()
				break
			}
		}
		if !inside {
			return false
		}
	}
	// first positioned instruction reached from `to` without branching
	seen := map[*ssa.BasicBlock]bool{}
	for b := to; b != nil && !seen[b]; {
		seen[b] = true
		for _, ins := range b.Instrs {
			if p := ins.Pos(); p.IsValid() {
				return p >= best.End()
			}
		}
		if len(b.Succs) != 1 {
			// an empty block that ends the function (implicit return at the closing brace) follows the loop
			return len(b.Succs) == 0
		}
		b = b.Succs[0]
	}
	return false
}

var debugExec = os.Getenv("GOVC_DEBUG") != ""

func fn0(fr *Frame) string { return shortFn(fr.fn) }
