package main

import (
	"context"
	"encoding/json"
	"fmt"
	"os"
	"os/exec"
	"path/filepath"
	"regexp"
	"strconv"
	"strings"
	"time"
)

// A bounded stand-in is an exhaustive run, up to a stated bound, of the REAL functions behind a
// contract that the proofs only assume (axioms about trusted pure helpers, lemmas about the
// standard library). It is labelled bounded in the evidence and never counted as a discharged
// obligation; a failing stand-in refutes an assumption of the check, so the check reports itself
// BROKEN (exit 2) rather than reporting a violation of the property.
type boundedStandin struct {
	Property string `json:"property"`
	Name     string `json:"name"`
	For      string `json:"stands_in_for"`
	Kind     string `json:"kind"` // "module": a stand-alone module under /verif; "overlay": an in-package test injected with go test -overlay
	Dir      string `json:"dir,omitempty"`
	Pkg      string `json:"pkg,omitempty"`
	File     string `json:"file,omitempty"`
	Test     string `json:"test"`
	Bound    string `json:"bound"`
}

var boundedCountRE = regexp.MustCompile(`BOUNDED instances=(\d+)`)

func runBoundedStandins(o *options) (results []interface{}, failed []string, violated []string) {
	b, err := os.ReadFile(filepath.Join(o.verif, "bounded", "standins.json"))
	if err != nil {
		return nil, nil, nil
	}
	var all []boundedStandin
	if err := json.Unmarshal(b, &all); err != nil {
		return nil, []string{"bounded/standins.json: " + err.Error()}, nil
	}
	for _, s := range all {
		if s.Property != o.prop {
			continue
		}
		rec := map[string]interface{}{"name": s.Name, "stands_in_for": s.For, "bound": s.Bound, "label": "bounded", "counted_as_proved": false}
		// a stand-in that runs functions of the repository (overlay) is run by both tiers: when the
		// code changes so that an assumed fact about it becomes false, the failing instance is a
		// counterexample on the real code - a violation, not a broken check
		if o.tier != "thorough" && s.Kind != "overlay" {
			rec["ran"] = false
			rec["note"] = "run by the thorough tier"
			results = append(results, rec)
			continue
		}
		t0 := time.Now()
		ctx, cancel := context.WithTimeout(context.Background(), 300*time.Second)
		var cmd *exec.Cmd
		cleanup := func() {}
		switch s.Kind {
		case "module":
			cmd = exec.CommandContext(ctx, "go", "test", "-v", "-vet=off", "-count=1", "-timeout", "240s", "-run", "^"+s.Test+"$", ".")
			cmd.Dir = filepath.Join(o.verif, s.Dir)
		case "overlay":
			work := filepath.Join(o.verif, "work", fmt.Sprintf("bounded-%d-%d", os.Getpid(), time.Now().UnixNano()))
			os.MkdirAll(work, 0o755)
			cleanup = func() { os.RemoveAll(work) }
			target := filepath.Join(o.repo, s.Pkg, "zz_verif_bounded_test.go")
			ovb, _ := json.Marshal(map[string]map[string]string{"Replace": {target: filepath.Join(o.verif, s.File)}})
			ovPath := filepath.Join(work, "overlay.json")
			os.WriteFile(ovPath, ovb, 0o644)
			cmd = exec.CommandContext(ctx, "go", "test", "-v", "-overlay", ovPath, "-vet=off", "-count=1", "-timeout", "240s", "-run", "^"+s.Test+"$", "./"+s.Pkg)
			cmd.Dir = o.repo
		default:
			cancel()
			failed = append(failed, "bounded stand-in "+s.Name+": unknown kind "+s.Kind)
			continue
		}
		cmd.Env = append(os.Environ(), "GOFLAGS=-mod=mod", "GOPROXY=off", "GOSUMDB=off", "GOTOOLCHAIN=local")
		out, err := cmd.CombinedOutput()
		cancel()
		cleanup()
		rec["ran"] = true
		rec["cmd"] = strings.Join(cmd.Args, " ") + " (in " + cmd.Dir + ")"
		rec["wall_s"] = time.Since(t0).Seconds()
		n := 0
		if m := boundedCountRE.FindStringSubmatch(string(out)); m != nil {
			n, _ = strconv.Atoi(m[1])
		}
		rec["instances"] = n
		if err != nil || n == 0 {
			rec["result"] = "FAILED"
			rec["output"] = trunc(string(out), 2000)
			if s.Kind == "overlay" && strings.Contains(string(out), "--- FAIL") {
				dir := filepath.Join(o.verif, "replay", o.prop)
				os.MkdirAll(dir, 0o755)
				path := filepath.Join(dir, "bounded_"+sanitize(s.Name)+".json")
				rb, _ := json.MarshalIndent(map[string]interface{}{"property": o.prop, "obligation": "bounded:" + s.Name, "kind": "bounded-standin", "stands_in_for": s.For,
					"bound": s.Bound, "replay_cmd": rec["cmd"], "verifier_output": trunc(string(out), 4000), "reproduced_on_real_code": true}, "", " ")
				os.WriteFile(path, rb, 0o644)
				violated = append(violated, fmt.Sprintf("VIOLATION property=%s replay=%s obligation=bounded:%s result=failing-instance-on-the-real-code", o.prop, path, s.Name))
			} else {
				failed = append(failed, fmt.Sprintf("bounded stand-in %s refutes an assumption of this check (or did not run): %s", s.Name, trunc(strings.TrimSpace(string(out)), 400)))
			}
		} else {
			rec["result"] = "held on every instance within the bound"
		}
		results = append(results, rec)
	}
	return results, failed, violated
}
