package main

import (
	"bufio"
	"fmt"
	"go/ast"
	"go/parser"
	"os"
	"path/filepath"
	"regexp"
	"sort"
	"strconv"
	"strings"

	"golang.org/x/tools/go/ssa"
)

// Contract files are comment-only Go files (/repo/<pkg>/zz_verif_contracts.go, build tag verif)
// and /verif/specs/*.spec. Every contract line starts with "//@".

type Clause struct {
	Label string
	Text  string
	Expr  ast.Expr
	Pos   string
	Known string // non-empty: this clause is expected to fail (documented finding id)
	// candidate loop invariants (Houdini): Candidate clauses are tried before the check proper;
	// those that are not inductive together with the declared invariants are Dropped, the others
	// are Proved by that pre-pass and then only assumed.
	Candidate bool
	Dropped   bool
	Proved    bool
}

type LetSpec struct {
	Ghost bool // exit-effect: Name is a ghost variable
	Name  string
	Expr  ast.Expr
	Text  string
}

type LoopSpec struct {
	Index       int
	Var         string
	Invariants  []*Clause
	Decreases   *Clause
	ExitLets    []*LetSpec    // exit-let name = expr: evaluated in the state in which the loop is left
	ExitAsserts []*Clause     // exit-assert label: expr - obligation in the state in which the loop is left
	HeadEffects []*EffectSpec // head-effect $g = expr: ghost assignment at every arrival at the loop head, after the invariant
}

type EffectSpec struct {
	Target string // on-go #3: only the go statement that starts closure $3 of the function
	Ghost  string
	Expr   ast.Expr
	Text   string
}

type FuncContract struct {
	Name     string
	Key      string
	Fn       *ssa.Function
	Extern   bool
	Props    []string
	Params   []string
	Results  []string
	Template string // header text when the contract was expanded from a {a,b} template
	HasHdr   bool
	Lets     []*LetSpec
	Requires []*Clause
	Ensures  []*Clause
	Loops    map[int]*LoopSpec
	Overflow bool
	Safety   bool
	Pure     bool
	Fresh    bool
	NoHavoc  bool
	Modifies []string
	HasMod   bool
	Effects  []*EffectSpec
	Inline   map[string]bool
	Opaque   map[string]bool // callees to treat as havoc even if small
	Depth    int
	Pkg      string
	File     string
	Trusted  string
	Owns     []*Clause
	Scope    []*Clause
	OnGo     []*EffectSpec
	OnRecv   map[string][]*EffectSpec
	OnSend   map[string][]*EffectSpec
	OnCall   map[string][]*EffectSpec // callee short name -> ghost updates applied after a direct call
	OnDefer  map[string][]*EffectSpec // callee name (short name, var:<v>) -> ghost updates applied at a defer statement
	Assume   []*Clause                // assumed at entry without being checked at call sites (type invariants)
}

type CallsiteContract struct {
	Callee   string
	Key      string
	In       []string
	NotIn    []string
	Params   []string
	Where    *Clause
	Requires []*Clause
	Props    []string
	Pkg      string
	Name     string
	InFunc   *regexp.Regexp
}

type LemmaVar struct {
	Name string
	Type ast.Expr
}

type Lemma struct {
	Name   string
	Props  []string
	Vars   []LemmaVar
	Steps  []*LemmaStep
	Inline []string
	Pkg    string
	Depth  int
	File   string
}

type LemmaStep struct {
	Kind string // let | assume | assert
	Name string
	C    *Clause
}

type Monitor struct {
	Type       string // struct type key
	Field      string // mutex field name
	Guards     []string
	Invariants []*Clause
	Self       string // name the invariants use for the object
	Pkg        string
	Props      []string
}

// WritersSpec is a frame contract on a memory key: only the listed functions may contain a
// (direct) write to it; writes into objects the writing invocation allocated itself do not count.
type WritersSpec struct {
	Key   string
	Allow []string
	Pkg   string
	Props []string
	File  string
}

// FieldWriteContract: an obligation at every store to a struct field (in the packages / functions
// it is scoped to): `v` is the value stored, `base` the object.
type FieldWriteContract struct {
	Kind     string // "field" (store to T.f), "elem" (store to an element of a []T / [N]T), "map" (lookup or update of a map of type T)
	Type     string // type key, e.g. net/http.Request
	Field    string
	Name     string
	Pkg      string
	Props    []string
	In       []string
	InFunc   *regexp.Regexp
	Requires []*Clause
	File     string
}

type GhostVar struct {
	Name string
	Type ast.Expr
}

type UFun struct {
	Name   string
	Params []ast.Expr
	Result ast.Expr
	Pkg    string
}

type ContractDB struct {
	Funcs       map[string]*FuncContract
	FuncList    []*FuncContract
	Writers     []*WritersSpec
	FieldWrites []*FieldWriteContract
	Callsites   []*CallsiteContract
	Lemmas      []*Lemma
	Monitors    []*Monitor
	Ghosts      map[string]*GhostVar
	UFuns       map[string]*UFun
	Axioms      []*Clause
	AxiomPkg    []string
	Files       []string
	Lines       int
}

var hdrRE = regexp.MustCompile(`^((?:\(\*?[\w./~\-\[\], ]+\)\.)?[\w./~\-$#:]+)\s*(?:\(([^)]*)\))?\s*(?:\(([^)]*)\)|([\w]+))?\s*$`)

func splitNames(s string) []string {
	var out []string
	for _, p := range strings.Split(s, ",") {
		p = strings.TrimSpace(p)
		if p != "" {
			out = append(out, p)
		}
	}
	return out
}

// rewriteImpl turns "a ==> b" into G_impl(a, b) (and <==> into G_iff) so go/parser accepts it.
func rewriteImpl(s string) string {
	// first rewrite the inside of every bracketed group
	var b strings.Builder
	i := 0
	for i < len(s) {
		c := s[i]
		if c == '"' {
			j := i + 1
			for j < len(s) && s[j] != '"' {
				if s[j] == '\\' {
					j++
				}
				j++
			}
			b.WriteString(s[i:min(j+1, len(s))])
			i = j + 1
			continue
		}
		if c == '(' || c == '[' {
			// find matching close
			d := 0
			j := i
			for ; j < len(s); j++ {
				if s[j] == '"' {
					j++
					for j < len(s) && s[j] != '"' {
						if s[j] == '\\' {
							j++
						}
						j++
					}
					continue
				}
				if s[j] == '(' || s[j] == '[' {
					d++
				} else if s[j] == ')' || s[j] == ']' {
					d--
					if d == 0 {
						break
					}
				}
			}
			if j >= len(s) {
				b.WriteString(s[i:])
				break
			}
			inner := s[i+1 : j]
			parts := splitTop(inner, ',')
			for k, p := range parts {
				parts[k] = rewriteImpl(p)
			}
			b.WriteByte(c)
			b.WriteString(strings.Join(parts, ","))
			b.WriteByte(s[j])
			i = j + 1
			continue
		}
		b.WriteByte(c)
		i++
	}
	t := b.String()
	if k := indexTop(t, "<==>"); k >= 0 {
		return "G_iff(" + rewriteImpl(t[:k]) + ", " + rewriteImpl(t[k+4:]) + ")"
	}
	if k := indexTop(t, "==>"); k >= 0 {
		return "G_impl(" + t[:k] + ", " + rewriteImpl(t[k+3:]) + ")"
	}
	return t
}

func indexTop(s, sep string) int {
	d := 0
	for i := 0; i < len(s); i++ {
		switch s[i] {
		case '"':
			i++
			for i < len(s) && s[i] != '"' {
				if s[i] == '\\' {
					i++
				}
				i++
			}
		case '(', '[', '{':
			d++
		case ')', ']', '}':
			d--
		default:
			if d == 0 && strings.HasPrefix(s[i:], sep) {
				if sep == "==>" && i > 0 && s[i-1] == '<' {
					continue
				}
				return i
			}
		}
	}
	return -1
}

func splitTop(s string, sep byte) []string {
	var out []string
	d := 0
	last := 0
	for i := 0; i < len(s); i++ {
		switch s[i] {
		case '"':
			i++
			for i < len(s) && s[i] != '"' {
				if s[i] == '\\' {
					i++
				}
				i++
			}
		case '(', '[', '{':
			d++
		case ')', ']', '}':
			d--
		default:
			if d == 0 && s[i] == sep {
				out = append(out, s[last:i])
				last = i + 1
			}
		}
	}
	out = append(out, s[last:])
	return out
}

func parseSpecExpr(text string) (ast.Expr, error) {
	t := replaceDollarOutsideStrings(text)
	t = rewriteImpl(t)
	e, err := parser.ParseExpr(t)
	if err != nil {
		return nil, fmt.Errorf("cannot parse %q (as %q): %v", text, t, err)
	}
	return e, nil
}

func parseClause(s, pos string) (*Clause, error) {
	s = strings.TrimSpace(s)
	c := &Clause{Pos: pos}
	// optional "[known Fx]" marker
	if strings.HasPrefix(s, "[") {
		if k := strings.Index(s, "]"); k > 0 {
			c.Known = strings.TrimSpace(s[1:k])
			s = strings.TrimSpace(s[k+1:])
		}
	}
	// label: expr   (label = [\w\-./]+ followed by ':' and a space)
	if m := regexp.MustCompile(`^([\w\-./]+):\s+(.*)$`).FindStringSubmatch(s); m != nil {
		c.Label = m[1]
		s = m[2]
	}
	c.Text = s
	e, err := parseSpecExpr(s)
	if err != nil {
		return nil, fmt.Errorf("%s: %v", pos, err)
	}
	c.Expr = e
	return c, nil
}

func newContractDB() *ContractDB {
	return &ContractDB{Funcs: map[string]*FuncContract{}, Ghosts: map[string]*GhostVar{}, UFuns: map[string]*UFun{}}
}

// loadContractFile parses one file. pkg is the import path the file belongs to ("" for specs).
func (db *ContractDB) loadContractFile(path, pkg string) error {
	f, err := os.Open(path)
	if err != nil {
		return err
	}
	defer f.Close()
	db.Files = append(db.Files, path)
	sc := bufio.NewScanner(f)
	sc.Buffer(make([]byte, 1<<20), 1<<20)
	var curF *FuncContract
	var curC *CallsiteContract
	var curL *Lemma
	var curM *Monitor
	var curLoop *LoopSpec
	var curW *WritersSpec
	var curFW *FieldWriteContract
	var pending string
	var pendingLn int
	ln := 0
	reset := func() { curF, curC, curL, curM, curLoop, curW, curFW = nil, nil, nil, nil, nil, nil, nil }
	handle := func(line string, ln int) error {
		pos := fmt.Sprintf("%s:%d", filepath.Base(filepath.Dir(path))+"/"+filepath.Base(path), ln)
		fields := strings.Fields(line)
		if len(fields) == 0 {
			return nil
		}
		kw := fields[0]
		rest := strings.TrimSpace(line[len(kw):])
		db.Lines++
		switch kw {
		case "func", "extern":
			reset()
			m := hdrRE.FindStringSubmatch(rest)
			if m == nil {
				return fmt.Errorf("%s: bad header %q", pos, rest)
			}
			fc := &FuncContract{Name: m[1], Extern: kw == "extern", Loops: map[int]*LoopSpec{}, Inline: map[string]bool{}, Opaque: map[string]bool{}, Pkg: pkg, File: pos, Depth: -1}
			fc.Params = splitNames(m[2])
			if m[3] != "" {
				fc.Results = splitNames(m[3])
			} else if m[4] != "" {
				fc.Results = []string{m[4]}
			}
			fc.HasHdr = strings.Contains(rest, "(") && (m[2] != "" || strings.Contains(rest, "()"))
			curF = fc
			db.FuncList = append(db.FuncList, fc)
		case "callsite":
			reset()
			m := hdrRE.FindStringSubmatch(rest)
			if m == nil {
				return fmt.Errorf("%s: bad callsite header %q", pos, rest)
			}
			curC = &CallsiteContract{Callee: m[1], Params: splitNames(m[2]), Pkg: pkg}
			db.Callsites = append(db.Callsites, curC)
		case "lemma":
			reset()
			curL = &Lemma{Name: rest, Pkg: pkg, Depth: -1, File: pos}
			db.Lemmas = append(db.Lemmas, curL)
		case "monitor":
			reset()
			// monitor <Type>.<field> self <name> guards a, b, c
			m := regexp.MustCompile(`^([\w./~\-\[\]]+)\.(\w+)\s+self\s+(\w+)\s+guards\s+(.*)$`).FindStringSubmatch(rest)
			if m == nil {
				return fmt.Errorf("%s: bad monitor header %q", pos, rest)
			}
			curM = &Monitor{Type: m[1], Field: m[2], Self: m[3], Guards: splitNames(m[4]), Pkg: pkg}
			db.Monitors = append(db.Monitors, curM)
		case "ghost":
			reset()
			// ghost $name type
			if len(fields) < 3 {
				return fmt.Errorf("%s: bad ghost decl", pos)
			}
			te, err := parser.ParseExpr(strings.Join(fields[2:], " "))
			if err != nil {
				return fmt.Errorf("%s: %v", pos, err)
			}
			n := strings.TrimPrefix(fields[1], "$")
			db.Ghosts[n] = &GhostVar{Name: n, Type: te}
		case "ufun":
			reset()
			// ufun $name(type, type) type
			m := regexp.MustCompile(`^\$?(\w+)\(([^)]*)\)\s*(.+)$`).FindStringSubmatch(rest)
			if m == nil {
				return fmt.Errorf("%s: bad ufun decl %q", pos, rest)
			}
			u := &UFun{Name: m[1], Pkg: pkg}
			for _, a := range splitNames(m[2]) {
				te, err := parser.ParseExpr(a)
				if err != nil {
					return fmt.Errorf("%s: %v", pos, err)
				}
				u.Params = append(u.Params, te)
			}
			te, err := parser.ParseExpr(m[3])
			if err != nil {
				return fmt.Errorf("%s: %v", pos, err)
			}
			u.Result = te
			db.UFuns[u.Name] = u
		case "axiom":
			reset()
			c, err := parseClause(rest, pos)
			if err != nil {
				return err
			}
			db.Axioms = append(db.Axioms, c)
			db.AxiomPkg = append(db.AxiomPkg, pkg)
		case "fieldwrite":
			reset()
			// fieldwrite <type>.<field>
			t := expandModRel(strings.TrimSpace(rest))
			i := strings.LastIndex(t, ".")
			if i < 0 {
				return fmt.Errorf("%s: fieldwrite needs <type>.<field>", pos)
			}
			curFW = &FieldWriteContract{Kind: "field", Type: t[:i], Field: t[i+1:], Pkg: pkg, File: pos, Name: t}
			db.FieldWrites = append(db.FieldWrites, curFW)
		case "elemwrite", "mapaccess":
			reset()
			// elemwrite <element type> : every store to an element of a slice/array of that type (v, idx)
			// mapaccess <map type>     : every lookup and update of a map of that type (k; v and update==true for updates)
			t := expandModRel(strings.TrimSpace(rest))
			kind := "elem"
			if kw == "mapaccess" {
				kind = "map"
			}
			curFW = &FieldWriteContract{Kind: kind, Type: t, Pkg: pkg, File: pos, Name: t}
			db.FieldWrites = append(db.FieldWrites, curFW)
		case "writers":
			reset()
			curW = &WritersSpec{Key: expandModRel(strings.TrimSpace(rest)), Pkg: pkg, File: pos}
			db.Writers = append(db.Writers, curW)
		case "allow":
			if curW == nil {
				return fmt.Errorf("%s: allow outside a writers block", pos)
			}
			for _, a := range strings.Split(rest, ",") {
				if a = strings.TrimSpace(a); a != "" {
					curW.Allow = append(curW.Allow, a)
				}
			}
		case "prop":
			ps := splitNames(strings.ReplaceAll(rest, " ", ","))
			switch {
			case curW != nil:
				curW.Props = append(curW.Props, ps...)
			case curFW != nil:
				curFW.Props = append(curFW.Props, ps...)
			case curF != nil:
				curF.Props = append(curF.Props, ps...)
			case curC != nil:
				curC.Props = append(curC.Props, ps...)
			case curL != nil:
				curL.Props = append(curL.Props, ps...)
			case curM != nil:
				curM.Props = append(curM.Props, ps...)
			}
		case "requires", "ensures", "invariant", "candidate", "assert", "assume", "where", "decreases", "entry-assume", "scope":
			c, err := parseClause(rest, pos)
			if err != nil {
				return err
			}
			switch {
			case curF != nil && kw == "candidate" && curLoop != nil:
				c.Candidate = true
				curLoop.Invariants = append(curLoop.Invariants, c)
			case curF != nil && kw == "requires":
				curF.Requires = append(curF.Requires, c)
			case curF != nil && kw == "entry-assume":
				curF.Assume = append(curF.Assume, c)
			case curF != nil && kw == "scope":
				// scope: the contract only speaks about calls satisfying this condition. Assumed
				// when the function is verified; at call sites the post-conditions are assumed only
				// under it; no obligation for callers.
				curF.Scope = append(curF.Scope, c)
			case curF != nil && kw == "ensures":
				curF.Ensures = append(curF.Ensures, c)
			case curF != nil && kw == "invariant" && curLoop != nil:
				curLoop.Invariants = append(curLoop.Invariants, c)
			case curF != nil && kw == "decreases" && curLoop != nil:
				curLoop.Decreases = c
			case curFW != nil && kw == "requires":
				curFW.Requires = append(curFW.Requires, c)
			case curC != nil && kw == "requires":
				curC.Requires = append(curC.Requires, c)
			case curC != nil && kw == "where":
				curC.Where = c
			case curL != nil && (kw == "assume" || kw == "assert"):
				curL.Steps = append(curL.Steps, &LemmaStep{Kind: kw, C: c})
			case curM != nil && kw == "invariant":
				curM.Invariants = append(curM.Invariants, c)
			default:
				return fmt.Errorf("%s: %q not allowed here", pos, kw)
			}
		case "exit-let":
			i := strings.Index(rest, "=")
			if i < 0 || curLoop == nil {
				return fmt.Errorf("%s: exit-let needs 'name = expr' inside a loop block", pos)
			}
			e, err := parseSpecExpr(strings.TrimSpace(rest[i+1:]))
			if err != nil {
				return fmt.Errorf("%s: %v", pos, err)
			}
			curLoop.ExitLets = append(curLoop.ExitLets, &LetSpec{Name: strings.TrimSpace(rest[:i]), Expr: e, Text: rest})
		case "exit-assert":
			if curLoop == nil {
				return fmt.Errorf("%s: exit-assert outside a loop block", pos)
			}
			c, err := parseClause(rest, pos)
			if err != nil {
				return err
			}
			curLoop.ExitAsserts = append(curLoop.ExitAsserts, c)
		case "head-effect":
			// head-effect $g = expr : at every arrival at the loop head (first entry and every back
			// edge), after the invariant was established: a per-iteration snapshot taken before the
			// body runs ($idx is still the index of the previous element; the coming one is $idx + 1)
			i := strings.Index(rest, "=")
			if i < 0 || curLoop == nil {
				return fmt.Errorf("%s: head-effect needs '$g = expr' inside a loop block", pos)
			}
			e, err := parseSpecExpr(strings.TrimSpace(rest[i+1:]))
			if err != nil {
				return fmt.Errorf("%s: %v", pos, err)
			}
			curLoop.HeadEffects = append(curLoop.HeadEffects, &EffectSpec{Ghost: strings.TrimPrefix(strings.TrimSpace(rest[:i]), "$"), Expr: e, Text: rest})
		case "exit-effect":
			// exit-effect $g = expr : ghost assignment in the state in which the loop is left
			i := strings.Index(rest, "=")
			if i < 0 || curLoop == nil {
				return fmt.Errorf("%s: exit-effect needs '$g = expr' inside a loop block", pos)
			}
			e, err := parseSpecExpr(strings.TrimSpace(rest[i+1:]))
			if err != nil {
				return fmt.Errorf("%s: %v", pos, err)
			}
			curLoop.ExitLets = append(curLoop.ExitLets, &LetSpec{Name: strings.TrimPrefix(strings.TrimSpace(rest[:i]), "$"), Expr: e, Text: rest, Ghost: true})
		case "let":
			i := strings.Index(rest, "=")
			if i < 0 {
				return fmt.Errorf("%s: bad let", pos)
			}
			name := strings.TrimSpace(rest[:i])
			e, err := parseSpecExpr(strings.TrimSpace(rest[i+1:]))
			if err != nil {
				return fmt.Errorf("%s: %v", pos, err)
			}
			switch {
			case curF != nil:
				curF.Lets = append(curF.Lets, &LetSpec{Name: name, Expr: e, Text: rest})
			case curL != nil:
				curL.Steps = append(curL.Steps, &LemmaStep{Kind: "let", Name: name, C: &Clause{Expr: e, Text: rest, Pos: pos}})
			default:
				return fmt.Errorf("%s: let not allowed here", pos)
			}
		case "forall":
			if curL == nil {
				return fmt.Errorf("%s: forall only in lemma", pos)
			}
			for _, d := range splitTop(rest, ',') {
				fs := strings.Fields(d)
				if len(fs) < 2 {
					return fmt.Errorf("%s: bad forall %q", pos, d)
				}
				te, err := parser.ParseExpr(strings.Join(fs[1:], " "))
				if err != nil {
					return fmt.Errorf("%s: %v", pos, err)
				}
				curL.Vars = append(curL.Vars, LemmaVar{Name: fs[0], Type: te})
			}
		case "loop":
			if curF == nil {
				return fmt.Errorf("%s: loop outside func", pos)
			}
			// loop <n> (<var>)
			m := regexp.MustCompile(`^(\d+)\s*(?:\((\w*)\))?`).FindStringSubmatch(rest)
			if m == nil {
				return fmt.Errorf("%s: bad loop header", pos)
			}
			idx, _ := strconv.Atoi(m[1])
			curLoop = &LoopSpec{Index: idx, Var: m[2]}
			curF.Loops[idx] = curLoop
		case "overflow":
			if curF != nil {
				curF.Overflow = rest == "on"
			}
		case "safety":
			if curF != nil {
				curF.Safety = rest == "on"
			}
		case "pure":
			if curF != nil {
				curF.Pure = true
				curF.HasMod = true
			}
		case "fresh":
			if curF != nil {
				curF.Fresh = true
			}
		case "owns":
			// owns <ptr-expr>.<field> : callees that are not handed <ptr-expr> do not write that
			// field of that object (encapsulation assumption, listed in the evidence)
			if curF != nil {
				e, err := parseSpecExpr(rest)
				if err != nil {
					return fmt.Errorf("%s: %v", pos, err)
				}
				curF.Owns = append(curF.Owns, &Clause{Text: rest, Expr: e, Pos: pos})
			}
		case "trusted":
			// a contract on a repository function that is assumed, not verified (listed in the trusted base)
			if curF != nil {
				curF.Trusted = rest
				if rest == "" {
					curF.Trusted = "assumed"
				}
			}
		case "modifies":
			if curF != nil {
				curF.HasMod = true
				if rest != "nothing" {
					curF.Modifies = append(curF.Modifies, splitNames(rest)...)
				}
			}
		case "effect":
			if curF == nil {
				return fmt.Errorf("%s: effect outside func", pos)
			}
			i := strings.Index(rest, "=")
			if i < 0 {
				return fmt.Errorf("%s: bad effect", pos)
			}
			e, err := parseSpecExpr(strings.TrimSpace(rest[i+1:]))
			if err != nil {
				return fmt.Errorf("%s: %v", pos, err)
			}
			curF.Effects = append(curF.Effects, &EffectSpec{Ghost: strings.TrimPrefix(strings.TrimSpace(rest[:i]), "$"), Expr: e, Text: rest})
		case "on-go", "on-recv", "on-send", "on-call", "on-defer":
			// ghost effects attached to statements of the function under contract:
			//   on-go: $x = e            at every go statement
			//   on-recv <chan var>: $x = e   at every receive from that channel variable (v = the value received)
			if curF == nil {
				return fmt.Errorf("%s: %s outside func", pos, kw)
			}
			body := rest
			ch := ""
			if kw == "on-recv" || kw == "on-send" || kw == "on-call" || kw == "on-defer" {
				i := strings.Index(rest, ": ")
				if i < 0 {
					return fmt.Errorf("%s: %s needs '<name>: $g = expr'", pos, kw)
				}
				ch = strings.TrimSpace(rest[:i])
				body = strings.TrimSpace(rest[i+1:])
			} else {
				body = strings.TrimSpace(strings.TrimPrefix(rest, ":"))
				if strings.HasPrefix(body, "#") {
					// on-go #3: $g = e   - only at the go statement that starts closure $3
					if j := strings.Index(body, ": "); j > 0 {
						ch = strings.ReplaceAll(strings.TrimSpace(body[:j]), "#", "$")
						body = strings.TrimSpace(body[j+1:])
					}
				}
			}
			i := strings.Index(body, "=")
			if i < 0 {
				return fmt.Errorf("%s: bad %s", pos, kw)
			}
			e, err := parseSpecExpr(strings.TrimSpace(body[i+1:]))
			if err != nil {
				return fmt.Errorf("%s: %v", pos, err)
			}
			ef := &EffectSpec{Ghost: strings.TrimPrefix(strings.TrimSpace(body[:i]), "$"), Expr: e, Text: rest}
			if kw == "on-go" {
				ef.Target = ch
				curF.OnGo = append(curF.OnGo, ef)
			} else if kw == "on-defer" {
				if curF.OnDefer == nil {
					curF.OnDefer = map[string][]*EffectSpec{}
				}
				curF.OnDefer[ch] = append(curF.OnDefer[ch], ef)
			} else if kw == "on-call" {
				if curF.OnCall == nil {
					curF.OnCall = map[string][]*EffectSpec{}
				}
				curF.OnCall[ch] = append(curF.OnCall[ch], ef)
			} else if kw == "on-send" {
				if curF.OnSend == nil {
					curF.OnSend = map[string][]*EffectSpec{}
				}
				curF.OnSend[ch] = append(curF.OnSend[ch], ef)
			} else {
				if curF.OnRecv == nil {
					curF.OnRecv = map[string][]*EffectSpec{}
				}
				curF.OnRecv[ch] = append(curF.OnRecv[ch], ef)
			}
		case "inline":
			for _, n := range splitNames(rest) {
				if curF != nil {
					curF.Inline[n] = true
				}
				if curL != nil {
					curL.Inline = append(curL.Inline, n)
				}
			}
		case "opaque":
			for _, n := range splitNames(rest) {
				if curF != nil {
					curF.Opaque[n] = true
				}
			}
		case "depth":
			d, _ := strconv.Atoi(rest)
			if curF != nil {
				curF.Depth = d
			}
			if curL != nil {
				curL.Depth = d
			}
		case "in":
			if curC != nil {
				curC.In = append(curC.In, splitNames(rest)...)
			}
			if curFW != nil {
				curFW.In = append(curFW.In, splitNames(rest)...)
			}
		case "notin":
			if curC != nil {
				curC.NotIn = append(curC.NotIn, splitNames(rest)...)
			}
		case "name":
			if curC != nil {
				curC.Name = rest
			}
			if curFW != nil {
				curFW.Name = rest
			}
		case "infunc":
			// restrict a call-site contract to call sites inside functions whose name matches
			if curC != nil {
				re, err := regexp.Compile(rest)
				if err != nil {
					return fmt.Errorf("%s: %v", pos, err)
				}
				curC.InFunc = re
			}
			if curFW != nil {
				re, err := regexp.Compile(rest)
				if err != nil {
					return fmt.Errorf("%s: %v", pos, err)
				}
				curFW.InFunc = re
			}
		default:
			return fmt.Errorf("%s: unknown keyword %q", pos, kw)
		}
		return nil
	}
	flush := func() error {
		if pending != "" {
			l := pending
			pending = ""
			return handle(l, pendingLn)
		}
		return nil
	}
	// pass 1: logical lines (continuations joined)
	type lline struct {
		text string
		ln   int
	}
	var lines []lline
	for sc.Scan() {
		ln++
		line := sc.Text()
		t := strings.TrimSpace(line)
		if !strings.HasPrefix(t, "//@") {
			continue
		}
		t = t[3:]
		// strip trailing comment " // ..."
		if k := strings.Index(t, " // "); k >= 0 {
			t = t[:k]
		}
		if strings.TrimSpace(t) == "" {
			continue
		}
		// continuation lines start with "//@ |"
		ts := strings.TrimSpace(t)
		if strings.HasPrefix(ts, "|") && len(lines) > 0 {
			lines[len(lines)-1].text += " " + strings.TrimSpace(ts[1:])
			continue
		}
		lines = append(lines, lline{ts, ln})
	}
	if err := sc.Err(); err != nil {
		return err
	}
	_ = flush
	_ = pending
	_ = pendingLn
	// pass 2: template contracts. A `func` header with {a,b,c} alternatives stands for one
	// contract per combination, all with the same body; combinations that name no function of the
	// package are skipped (at least one must exist).
	isHeader := func(t string) bool {
		switch strings.Fields(t)[0] {
		case "func", "extern", "callsite", "lemma", "monitor", "ghost", "ufun", "axiom", "writers", "fieldwrite", "elemwrite", "mapaccess":
			return true
		}
		return false
	}
	for i := 0; i < len(lines); {
		l := lines[i]
		if (strings.HasPrefix(l.text, "func ") || strings.HasPrefix(l.text, "callsite ")) && strings.Contains(l.text, "{") {
			j := i + 1
			for j < len(lines) && !isHeader(lines[j].text) {
				j++
			}
			// an alternative written name=value binds %1 in the body lines to value for the
			// contracts expanded from that alternative (per-type constants in a shared text)
			heads, binds := expandBracesBound(l.text)
			for hi, h := range heads {
				before := len(db.FuncList)
				if err := handle(h, l.ln); err != nil {
					return err
				}
				if len(db.FuncList) > before {
					db.FuncList[len(db.FuncList)-1].Template = l.text
				}
				for _, b := range lines[i+1 : j] {
					bt := b.text
					if binds[hi] != "" {
						bt = strings.ReplaceAll(bt, "%1", binds[hi])
					}
					if err := handle(bt, b.ln); err != nil {
						return err
					}
				}
			}
			i = j
			continue
		}
		if err := handle(l.text, l.ln); err != nil {
			return err
		}
		i++
	}
	return nil
}

// expandBracesBound is expandBraces with name=value alternatives: the head gets the name, the
// value is returned alongside (the value of the first group that has one).
func expandBracesBound(s string) (heads []string, binds []string) {
	i := strings.Index(s, "{")
	if i < 0 {
		return []string{s}, []string{""}
	}
	j := strings.Index(s[i:], "}")
	if j < 0 {
		return []string{s}, []string{""}
	}
	j += i
	for _, alt := range strings.Split(s[i+1:j], ",") {
		alt = strings.TrimSpace(alt)
		bind := ""
		if k := strings.Index(alt, "="); k > 0 {
			alt, bind = strings.TrimSpace(alt[:k]), strings.TrimSpace(alt[k+1:])
		}
		rh, rb := expandBracesBound(s[j+1:])
		for n, rest := range rh {
			heads = append(heads, s[:i]+alt+rest)
			if bind != "" {
				binds = append(binds, bind)
			} else {
				binds = append(binds, rb[n])
			}
		}
	}
	return heads, binds
}

// expandBraces expands every {a,b,c} group of s (cartesian product).
func expandBraces(s string) []string {
	i := strings.Index(s, "{")
	if i < 0 {
		return []string{s}
	}
	j := strings.Index(s[i:], "}")
	if j < 0 {
		return []string{s}
	}
	j += i
	var out []string
	for _, alt := range strings.Split(s[i+1:j], ",") {
		for _, rest := range expandBraces(s[j+1:]) {
			out = append(out, s[:i]+strings.TrimSpace(alt)+rest)
		}
	}
	return out
}

// loadContracts reads all contract files of the repository and the spec directory.
func loadContracts(p *Prog, specDir string) (*ContractDB, error) {
	db := newContractDB()
	specs, _ := filepath.Glob(filepath.Join(specDir, "*.spec"))
	sort.Strings(specs)
	for _, s := range specs {
		if err := db.loadContractFile(s, ""); err != nil {
			return nil, err
		}
	}
	var pkgPaths []string
	for pp := range p.AllPkgs {
		if inRepo(pp) {
			pkgPaths = append(pkgPaths, pp)
		}
	}
	sort.Strings(pkgPaths)
	for _, pp := range pkgPaths {
		pk := p.AllPkgs[pp]
		for _, f := range pk.CompiledGoFiles {
			if strings.HasSuffix(f, "zz_verif_contracts.go") {
				if err := db.loadContractFile(f, pp); err != nil {
					return nil, err
				}
			}
		}
	}
	// resolve function contracts
	tmplMissing := map[string]int{}
	tmplTotal := map[string]int{}
	for _, fc := range db.FuncList {
		if fc.Template != "" {
			tmplTotal[fc.Template+"@"+fc.File]++
		}
	}
	defer func() {
		kept := db.FuncList[:0]
		for _, fc := range db.FuncList {
			if fc.Key != "" {
				kept = append(kept, fc)
			}
		}
		db.FuncList = kept
	}()
	for _, fc := range db.FuncList {
		name := expandModRel(fc.Name)
		if fn := p.lookupFunc(name, fc.Pkg); fn != nil {
			fc.Fn = fn
			fc.Key = fn.String()
		} else {
			if fc.Template != "" {
				tmplMissing[fc.Template+"@"+fc.File]++
				continue
			}
			fc.Key = name
			if fc.Pkg != "" && !fc.Extern {
				// unresolved in-repo contract: keep, reported as contract-shape failure
				fc.Key = "?" + fc.Pkg + "." + name
			}
		}
		if old, dup := db.Funcs[fc.Key]; dup {
			return nil, fmt.Errorf("duplicate contract for %s (%s and %s)", fc.Key, old.File, fc.File)
		}
		db.Funcs[fc.Key] = fc
	}
	for k, n := range tmplMissing {
		if n == tmplTotal[k] {
			return nil, fmt.Errorf("template contract %s matches no function", k)
		}
	}
	for _, cc := range db.Callsites {
		if strings.HasPrefix(cc.Callee, "var:") || strings.HasPrefix(cc.Callee, "elem:") || strings.HasPrefix(cc.Callee, "field:") {
			cc.Key = cc.Callee
			continue
		}
		name := expandModRel(cc.Callee)
		if fn := p.lookupFunc(name, cc.Pkg); fn != nil {
			cc.Key = fn.String()
		} else {
			cc.Key = name
		}
	}
	return db, nil
}

// replaceDollarOutsideStrings turns the ghost sigil $ into the identifier prefix G_ everywhere
// except inside string and rune literals.
func replaceDollarOutsideStrings(text string) string {
	var b strings.Builder
	var quote byte
	for i := 0; i < len(text); i++ {
		c := text[i]
		switch {
		case quote != 0:
			b.WriteByte(c)
			if c == '\\' && quote != '`' && i+1 < len(text) {
				i++
				b.WriteByte(text[i])
			} else if c == quote {
				quote = 0
			}
		case c == '"' || c == '`' || c == '\'':
			quote = c
			b.WriteByte(c)
		case c == '$':
			b.WriteString("G_")
		default:
			b.WriteByte(c)
		}
	}
	return b.String()
}
