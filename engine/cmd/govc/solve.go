package main

import (
	"bytes"
	"context"
	"fmt"
	"os"
	"os/exec"
	"path/filepath"
	"strings"
	"sync"
	"time"
)

type solverSpec struct {
	name string
	argv func(file string, timeoutS int, seed int) []string
}

var solvers = []solverSpec{
	{"z3-new", func(f string, t int, seed int) []string {
		return []string{"z3-new", fmt.Sprintf("-T:%d", t), fmt.Sprintf("smt.random_seed=%d", seed), fmt.Sprintf("sat.random_seed=%d", seed), f}
	}},
	{"z3", func(f string, t int, seed int) []string {
		return []string{"z3", fmt.Sprintf("-T:%d", t), fmt.Sprintf("smt.random_seed=%d", seed), f}
	}},
	{"cvc5", func(f string, t int, seed int) []string {
		return []string{"cvc5", "--incremental", fmt.Sprintf("--tlimit=%d", t*1000), fmt.Sprintf("--seed=%d", seed), f}
	}},
}

type solveResult struct {
	solver string
	result string // unsat | sat | unknown | timeout | error
	out    string
	time   float64
}

func runSolver(ctx context.Context, s solverSpec, file string, timeoutS, seed int) solveResult {
	t0 := time.Now()
	argv := s.argv(file, timeoutS, seed)
	cctx, cancel := context.WithTimeout(ctx, time.Duration(timeoutS+2)*time.Second)
	defer cancel()
	cmd := exec.CommandContext(cctx, argv[0], argv[1:]...)
	var out bytes.Buffer
	cmd.Stdout = &out
	cmd.Stderr = &out
	err := cmd.Run()
	el := time.Since(t0).Seconds()
	text := out.String()
	first := strings.TrimSpace(strings.SplitN(text, "\n", 2)[0])
	switch first {
	case "unsat", "sat", "unknown":
		return solveResult{s.name, first, text, el}
	case "timeout":
		return solveResult{s.name, "timeout", text, el}
	}
	if cctx.Err() != nil {
		return solveResult{s.name, "timeout", text, el}
	}
	if err != nil || first != "" {
		return solveResult{s.name, "error", trunc(text, 2000), el}
	}
	return solveResult{s.name, "unknown", text, el}
}

// solveObl runs the portfolio on one obligation.
//
// Stage 1: z3-new on the full script and, in parallel, z3-new on the script without the
// quantified string axioms (the latter can answer `sat` with a model, which the quantified
// script practically never does). `unsat` from either variant discharges the obligation (fewer
// axioms unsat implies unsat). A `sat` of the axiom-free variant is only a candidate
// counterexample: the full variants keep running and may still prove the obligation.
// Stage 2: z3 4.8.12 and cvc5 on the full script with the longer budget.
func solveObl(vc *VC, o *Obl, dir string, tier string, seed int, idx int) {
	script := vc.script(o)
	o.SMTSize = len(script)
	base := filepath.Join(dir, fmt.Sprintf("o%04d_%s", idx, sanitize(trunc(o.Name, 50))))
	file := base + ".smt2"
	if err := os.WriteFile(file, []byte(script+"(get-model)\n"), 0o644); err != nil {
		o.Result = "error"
		o.Output = err.Error()
		return
	}
	fileNA := file
	fileNQ := ""
	if !o.MustSat {
		o2 := *o
		o2.NoAxioms = true
		fileNA = base + "_na.smt2"
		os.WriteFile(fileNA, []byte(vc.script(&o2)+"(get-model)\n"), 0o644)
		// quantifier-free variant: no string axioms, quantified assumptions left undefined.
		// unsat here implies unsat of the full script (it has strictly fewer assumptions).
		o3 := *o
		o3.NoAxioms, o3.NoQuant = true, true
		sc := vc.script(&o3)
		if sc != vc.script(&o2) {
			fileNQ = base + "_nq.smt2"
			os.WriteFile(fileNQ, []byte(sc), 0o644)
		}
	}
	quickT, slowT := 8, 30
	if tier == "candidate" {
		quickT = 6
	}
	if tier == "thorough" {
		quickT, slowT = 20, 90
	}
	if tier == "last" {
		quickT, slowT = 45, 90
	}
	ctx := context.Background()
	if o.MustSat {
		// vacuity probe: quantifier-free script, one solver, short budget; undecided is acceptable
		r := runSolver(ctx, solvers[0], file, quickT, seed)
		if r.result != "sat" && r.result != "unsat" {
			r2 := runSolver(ctx, solvers[1], file, quickT, seed)
			o.Time += r2.time
			if r2.result == "sat" || r2.result == "unsat" {
				r = r2
			}
		}
		o.Time += r.time
		o.Result, o.Solver, o.Output = r.result, r.solver, trunc(r.out, 2000)
		return
	}
	type tagged struct {
		solveResult
		na bool
	}
	var final solveResult
	var candidate *solveResult
	decided := false
	{
		cctx, cancel := context.WithCancel(ctx)
		ch := make(chan tagged, 2)
		n := 1
		go func() { ch <- tagged{runSolver(cctx, solvers[0], file, quickT, seed), false} }()
		if fileNA != file {
			n = 2
			go func() { ch <- tagged{runSolver(cctx, solvers[0], fileNA, quickT, seed), true} }()
		}
		if fileNQ != "" {
			n++
			go func() {
				r := runSolver(cctx, solvers[0], fileNQ, quickT, seed)
				r.solver = "z3-new(qf)"
				ch <- tagged{r, true}
			}()
		}
		for i := 0; i < n; i++ {
			r := <-ch
			o.Time += r.time
			switch {
			case r.result == "unsat":
				final, decided = r.solveResult, true
			case r.result == "sat" && !r.na:
				final, decided = r.solveResult, true
			case r.result == "sat" && r.na:
				if candidate == nil || r.solver != "z3-new(qf)" {
					rr := r.solveResult
					candidate = &rr
				}
			default:
				if !r.na && !decided {
					final = r.solveResult
				}
			}
			if decided {
				break
			}
		}
		cancel()
	}
	if !decided && tier == "quick" && knownObl[oblStem(o.Name)] {
		// a recorded, unrepaired finding: it failed as expected within the short budget
		o.Result, o.Solver = final.result, final.solver
		o.Output = trunc(final.out, 6000)
		if candidate != nil {
			o.Result = "sat-without-string-axioms"
			o.Solver = candidate.solver
			o.Model = candidate.out
			o.Output = "full script: " + final.result + "; without the quantified string axioms: sat (candidate counterexample)\n" + trunc(candidate.out, 6000)
		}
		return
	}
	if !decided && tier == "candidate" {
		// Houdini pre-pass: a candidate invariant that is not proved at once is simply dropped
		o.Result, o.Solver = "unknown", final.solver
		return
	}
	if !decided {
		t := slowT
		if candidate != nil && tier != "thorough" {
			t = 8
		}
		cctx, cancel := context.WithCancel(ctx)
		ch := make(chan tagged, 16)
		n := 0
		for _, s := range solvers[1:] {
			n++
			go func(s solverSpec) { ch <- tagged{runSolver(cctx, s, file, t, seed), false} }(s)
		}
		// the best solver gets the long budget on the full script in any case: a quantified goal that
		// needs a few seconds misses the short budget on a loaded machine, and the axiom-free
		// variants' "sat" says nothing about it
		// ... under three further seeds, on the full script and on the variant without the string
		// axioms: an obligation that is true but sensitive to the solver's choices is then lost only
		// if every one of these runs is unlucky
		for _, ds := range []int{1, 2, 3} {
			ds := ds
			n++
			go func() { ch <- tagged{runSolver(cctx, solvers[0], file, slowT, seed+ds), false} }()
			if fileNA != file && ds > 1 {
				n++
				go func() { ch <- tagged{runSolver(cctx, solvers[0], fileNA, slowT, seed+ds), true} }()
			}
		}
		if candidate == nil {
			// nothing answered within the short budget: the long budget on every variant
			if fileNA != file {
				n++
				go func() { ch <- tagged{runSolver(cctx, solvers[0], fileNA, t, seed+1), true} }()
			}
			if fileNQ != "" {
				n++
				go func() {
					r := runSolver(cctx, solvers[0], fileNQ, t, seed+1)
					r.solver = "z3-new(qf)"
					ch <- tagged{r, true}
				}()
			}
		}
		for i := 0; i < n; i++ {
			rr := <-ch
			o.Time += rr.time
			if rr.result == "unsat" || (rr.result == "sat" && !rr.na) {
				final, decided = rr.solveResult, true
				break
			}
			if rr.result == "sat" && rr.na && candidate == nil {
				c := rr.solveResult
				candidate = &c
			}
		}
		cancel()
	}
	o.Result = final.result
	o.Solver = final.solver
	o.Output = trunc(final.out, 6000)
	if final.result == "sat" {
		o.Model = final.out
	}
	if !decided && candidate != nil {
		o.Result = "sat-without-string-axioms"
		o.Solver = candidate.solver
		o.Model = candidate.out
		o.Output = "full script: " + final.result + "; without the quantified string axioms: sat (candidate counterexample)\n" + trunc(candidate.out, 6000)
	}
	if tier == "thorough" && decided && final.result == "unsat" {
		// proof stability: the first stage of the portfolio (all variants of the query, z3-new) is
		// re-run under two other solver seeds with the quick budget. A seed under which no variant
		// proves the obligation marks the proof as brittle (recorded in the evidence, not a
		// failure); a definite `sat` on the full query is a contradiction (broken).
		for _, sd := range []int{seed + 101, seed + 202} {
			proved := false
			files := []string{file}
			if fileNA != file {
				files = append(files, fileNA)
			}
			if fileNQ != "" {
				files = append(files, fileNQ)
			}
			type res struct {
				f string
				r solveResult
			}
			ch := make(chan res, len(files))
			cctx, cancel := context.WithCancel(ctx)
			for _, f := range files {
				go func(f string) { ch <- res{f, runSolver(cctx, solvers[0], f, 8, sd)} }(f)
			}
			worst := ""
			for range files {
				rr := <-ch
				o.Time += rr.r.time
				if rr.r.result == "unsat" {
					proved = true
					break
				}
				if rr.r.result == "sat" && rr.f == file {
					o.Result = "disagree"
					o.Output = fmt.Sprintf("z3-new says unsat under seed %d and sat under seed %d", seed, sd)
				}
				worst = rr.r.result
			}
			cancel()
			if !proved {
				o.Brittle = append(o.Brittle, fmt.Sprintf("seed %d: no variant proved it within 8s (%s)", sd, worst))
			}
		}
	}
	if tier == "thorough" && decided {
		// cross-check with the other back ends: they must not contradict
		for _, s := range solvers {
			if s.name == final.solver {
				continue
			}
			rr := runSolver(ctx, s, file, 30, seed)
			o.Time += rr.time
			if (rr.result == "unsat" || rr.result == "sat") && rr.result != final.result {
				o.Result = "disagree"
				o.Output = fmt.Sprintf("%s says %s, %s says %s", final.solver, final.result, s.name, rr.result)
			}
		}
	}
}

func solveAll(units []*Unit, dir, tier string, seed, workers int) {
	type job struct {
		u   *Unit
		o   *Obl
		idx int
	}
	var jobs []job
	n := 0
	for _, u := range units {
		for _, o := range u.Obls {
			jobs = append(jobs, job{u, o, n})
			n++
		}
	}
	ch := make(chan job)
	var wg sync.WaitGroup
	for w := 0; w < workers; w++ {
		wg.Add(1)
		go func() {
			defer wg.Done()
			for j := range ch {
				if j.o.Goal == "true" && !j.o.MustSat {
					j.o.Result = "unsat"
					j.o.Solver = "trivial"
					continue
				}
				solveObl(j.u.vc, j.o, dir, tier, seed, j.idx)
			}
		}()
	}
	for _, j := range jobs {
		ch <- j
	}
	close(ch)
	wg.Wait()
}
