package main

import (
	"fmt"
	"go/ast"
	"go/constant"
	"go/token"
	"go/types"
	"sort"
	"strconv"
	"strings"
	"sync"

	"golang.org/x/tools/go/ssa"
)

type specVal struct {
	term string
	typ  types.Type
	lazy bool // term is the address of a nested struct value that has not been loaded yet
}

type SpecEnv struct {
	x             *Exec
	names         map[string]specVal
	st            *State
	old           *State
	pkg           *types.Package
	fr            *Frame
	callerFrame   *Frame
	inOld         bool
	localsCurrent bool
	ssaArgs       map[string]ssa.Value // callee parameter name -> SSA argument (call-site evaluation)
	facts         *[]string            // inside a quantifier: valid side facts about terms mentioning the bound variable
	tolerant      *[]string            // when set, evaluation errors are collected here instead of breaking the unit
	errs          []string
}

var untypedNil = types.Typ[types.UntypedNil]
var tInt = types.Typ[types.Int]
var tBool = types.Typ[types.Bool]
var tString = types.Typ[types.String]

func (e *SpecEnv) fail(format string, a ...interface{}) specVal {
	msg := fmt.Sprintf(format, a...)
	if e.tolerant != nil {
		*e.tolerant = append(*e.tolerant, msg)
		return specVal{term: e.x.vc.freshConst("specerr", "Bool"), typ: tBool}
	}
	e.x.unsupp("spec: %s", msg)
	return specVal{term: e.x.vc.freshConst("specerr", "Bool"), typ: tBool}
}

func (e *SpecEnv) sub() *SpecEnv {
	n := *e
	n.names = map[string]specVal{}
	for k, v := range e.names {
		n.names[k] = v
	}
	return &n
}

func (x *Exec) evalBool(env *SpecEnv, e ast.Expr) string {
	v := x.evalSpec(env, e)
	if x.vc.sortOf(v.typ) != "Bool" {
		env.fail("expression %s is not boolean", exprString(e))
		return "true"
	}
	return v.term
}

func exprString(e ast.Expr) string {
	return types.ExprString(e)
}

func (x *Exec) evalSpec(env *SpecEnv, e ast.Expr) specVal {
	return x.force(env, x.evalSpecLazy(env, e))
}

func (x *Exec) evalSpecLazy(env *SpecEnv, e ast.Expr) specVal {
	vc := x.vc
	switch t := e.(type) {
	case *ast.ParenExpr:
		return x.evalSpecLazy(env, t.X)
	case *ast.BasicLit:
		switch t.Kind {
		case token.INT:
			v := constant.MakeFromLiteral(t.Value, token.INT, 0)
			return specVal{term: vc.constTerm(v, tInt), typ: tInt}
		case token.STRING:
			s, _ := strconv.Unquote(t.Value)
			return specVal{term: vc.strLit(s), typ: tString}
		case token.CHAR:
			v := constant.MakeFromLiteral(t.Value, token.CHAR, 0)
			return specVal{term: vc.constTerm(constant.ToInt(v), tInt), typ: tInt}
		}
	case *ast.Ident:
		return x.evalIdent(env, t)
	case *ast.SelectorExpr:
		return x.evalSelector(env, t)
	case *ast.StarExpr:
		v := x.evalSpec(env, t.X)
		pt, ok := v.typ.Underlying().(*types.Pointer)
		if !ok {
			return env.fail("deref of non-pointer %s", exprString(t.X))
		}
		return specVal{term: x.load(env.st, pt.Elem(), v.term), typ: pt.Elem()}
	case *ast.UnaryExpr:
		v := x.evalSpec(env, t.X)
		switch t.Op {
		case token.NOT:
			return specVal{term: not(v.term), typ: tBool}
		case token.SUB:
			return specVal{term: fmt.Sprintf("(- %s)", v.term), typ: v.typ}
		}
	case *ast.BinaryExpr:
		return x.evalBinary(env, t)
	case *ast.IndexExpr:
		return x.evalIndex(env, t)
	case *ast.SliceExpr:
		v := x.evalSpec(env, t.X)
		lo := "0"
		if t.Low != nil {
			lo = x.evalSpec(env, t.Low).term
		}
		if vc.sortOf(v.typ) == "Slice" {
			hi := fmt.Sprintf("(sl_len %s)", v.term)
			if t.High != nil {
				hi = x.evalSpec(env, t.High).term
			}
			return specVal{term: fmt.Sprintf("(mk_slice (sl_arr %s) (+ (sl_off %s) %s) (- %s %s) (- (sl_cap %s) %s))", v.term, v.term, lo, hi, lo, v.term, lo), typ: v.typ}
		}
		if vc.sortOf(v.typ) == "Str" {
			hi := fmt.Sprintf("(strlen %s)", v.term)
			if t.High != nil {
				hi = x.evalSpec(env, t.High).term
			}
			return specVal{term: fmt.Sprintf("(str_sub %s %s %s)", v.term, lo, hi), typ: v.typ}
		}
	case *ast.CallExpr:
		return x.evalCall(env, t)
	case *ast.CompositeLit:
		if len(t.Elts) == 0 {
			ty := x.resolveTypeExpr(t.Type, env.pkg)
			if ty != nil {
				return specVal{term: vc.zero(ty), typ: ty}
			}
		}
	}
	return env.fail("unsupported spec expression %s", exprString(e))
}

func (x *Exec) evalIdent(env *SpecEnv, id *ast.Ident) specVal {
	switch id.Name {
	case "true":
		return specVal{term: "true", typ: tBool}
	case "false":
		return specVal{term: "false", typ: tBool}
	case "nil":
		return specVal{term: "pnull", typ: untypedNil}
	}
	if id.Name == "G_idx" || strings.HasPrefix(id.Name, "G_idx__") {
		// $idx: the hidden index of a range loop (index of the last element processed, -1 before
		// the first iteration); $idx__2 for the second range loop of the function
		if _, bound := env.names[id.Name]; !bound && env.fr != nil {
			n := "rangeindex" + strings.TrimPrefix(id.Name, "G_idx")
			if v, ok := x.localByName(env, env.fr, n); ok {
				return v
			}
		}
	}
	if strings.HasPrefix(id.Name, "G_") {
		name := id.Name[2:]
		if g, ok := x.db.Ghosts[name]; ok {
			st := env.st
			if env.inOld && env.old != nil {
				st = env.old
			}
			return specVal{term: x.ghostGet(st, name), typ: x.resolveTypeExpr(g.Type, nil)}
		}
	}
	if v, ok := env.names[id.Name]; ok {
		if env.inOld {
			if ov, ok := env.names["old:"+id.Name]; ok {
				return ov
			}
		}
		return v
	}
	if env.fr != nil {
		if v, ok := x.localByName(env, env.fr, id.Name); ok {
			return v
		}
	}
	if env.pkg != nil {
		if v, ok := x.pkgMember(env, env.pkg, id.Name); ok {
			return v
		}
	}
	if obj := types.Universe.Lookup(id.Name); obj != nil {
		if c, ok := obj.(*types.Const); ok {
			return specVal{term: x.vc.constTerm(c.Val(), c.Type()), typ: c.Type()}
		}
	}
	return env.fail("unknown identifier %s", id.Name)
}

// localByName resolves a source variable of the frame's function by name.
func (x *Exec) localByName(env *SpecEnv, fr *Frame, name string) (specVal, bool) {
	st := env.st
	if env.inOld && env.old != nil && !env.localsCurrent {
		st = env.old
		// parameters: their entry values
		for i, p := range fr.fn.Params {
			if p.Name() == name && i < len(fr.params) {
				return specVal{term: fr.params[i], typ: p.Type()}, true
			}
		}
	}
	want := 1
	base := name
	if i := strings.LastIndex(name, "__"); i > 0 {
		if k, err := strconv.Atoi(name[i+2:]); err == nil {
			base, want = name[:i], k
		}
	}
	// same-named locals are numbered in SOURCE order (name, name__2, ...), not in the order of the
	// basic blocks that happen to hold their allocation: block order changes when an enclosing
	// statement is restructured (an `if` around a loop added or removed), source order does not.
	// Hidden variables (rangeindex) carry no position: the earliest position among their uses counts.
	var found *ssa.Alloc
	if cands := sameNamedLocals(fr.fn, base); want >= 1 && want <= len(cands) {
		found = cands[want-1]
	}
	if found == nil {
		for i, p := range fr.fn.Params {
			if p.Name() == name && i < len(fr.params) {
				return specVal{term: fr.params[i], typ: p.Type()}, true
			}
		}
		for i, fv := range fr.fn.FreeVars {
			if fv.Name() == name {
				_ = i
				et := deref(fv.Type())
				return specVal{term: x.loadFrom(fr, st, fv), typ: et}, true
			}
		}
		// a local the contract names no longer exists: if it was merely renamed (recorded at
		// baseline time: same type, and the function gained exactly as many new names of that
		// type as it lost), the clause follows the renamed variable
		if alt := renamedLocal(fr.fn, base); alt != "" && alt != base {
			if want > 1 {
				alt = fmt.Sprintf("%s__%d", alt, want)
			}
			x.vc.note(fmt.Sprintf("contract name %q of %s follows the renamed local %q (same type; recorded at baseline time)", name, shortFn(fr.fn), alt))
			return x.localByName(env, fr, alt)
		}
		return specVal{}, false
	}
	et := deref(found.Type())
	if _, executed := fr.laddr[found]; !executed {
		if _, executed2 := fr.vals[found]; !executed2 {
			for i, p := range fr.fn.Params {
				if p.Name() == name && i < len(fr.params) {
					return specVal{term: fr.params[i], typ: p.Type()}, true
				}
			}
		}
	}
	if la, ok := fr.laddr[found]; ok && la != nil {
		if _, ok := st.cells[found]; !ok {
			// not yet initialised in this state (e.g. old state before the spill): parameter?
			for i, p := range fr.fn.Params {
				if p.Name() == name && i < len(fr.params) {
					return specVal{term: fr.params[i], typ: p.Type()}, true
				}
			}
		}
		return specVal{term: x.cellRead(st, la), typ: et}, true
	}
	if p, ok := fr.vals[found]; ok {
		return specVal{term: x.load(st, et, p), typ: et}, true
	}
	// allocation not executed yet on this path (e.g. a loop invariant evaluated at the loop head
	// that mentions a variable declared in the body): unconstrained
	if !found.Heap {
		return specVal{term: x.vc.zero(et), typ: et}, true
	}
	return specVal{}, false
}

func (x *Exec) pkgMember(env *SpecEnv, pkg *types.Package, name string) (specVal, bool) {
	obj := pkg.Scope().Lookup(name)
	if obj == nil {
		return specVal{}, false
	}
	switch o := obj.(type) {
	case *types.Const:
		return specVal{term: x.vc.constTerm(o.Val(), o.Type()), typ: o.Type()}, true
	case *types.Var:
		sp := x.p.SSA.Package(pkg)
		if sp == nil {
			return specVal{}, false
		}
		g, ok := sp.Members[name].(*ssa.Global)
		if !ok {
			return specVal{}, false
		}
		et := deref(g.Type())
		if x.p.globalImmutable(g) {
			return specVal{term: x.globalConst(g), typ: et}, true
		}
		st := env.st
		if env.inOld && env.old != nil {
			st = env.old
		}
		return specVal{term: x.load(st, et, fmt.Sprintf("(pglob %d)", x.vc.globID(g.String()))), typ: et}, true
	}
	return specVal{}, false
}

func (x *Exec) findPkgByName(env *SpecEnv, name string) *types.Package {
	if env.pkg != nil {
		if env.pkg.Name() == name {
			return env.pkg
		}
		for _, imp := range env.pkg.Imports() {
			if imp.Name() == name {
				return imp
			}
		}
	}
	var found *types.Package
	for _, pk := range x.p.AllPkgs {
		if pk.Types != nil && pk.Types.Name() == name {
			if found != nil && found != pk.Types {
				// ambiguous: prefer repo packages, then shortest path
				if inRepo(pk.PkgPath) && !inRepo(found.Path()) || (inRepo(pk.PkgPath) == inRepo(found.Path()) && len(pk.PkgPath) < len(found.Path())) {
					found = pk.Types
				}
				continue
			}
			found = pk.Types
		}
	}
	return found
}

func (x *Exec) evalSelector(env *SpecEnv, s *ast.SelectorExpr) specVal {
	if id, ok := s.X.(*ast.Ident); ok {
		if id.Name == "caller" && env.callerFrame != nil {
			name := s.Sel.Name
			if name == "G_idx" || strings.HasPrefix(name, "G_idx__") {
				// caller.$idx: hidden index of the caller's range loop
				name = "rangeindex" + strings.TrimPrefix(name, "G_idx")
			}
			if v, ok := x.localByName(env, env.callerFrame, name); ok {
				return v
			}
			return env.fail("caller has no variable %s", s.Sel.Name)
		}
		_, bound := env.names[id.Name]
		isLocal := false
		if env.fr != nil && !bound {
			_, isLocal = x.localByName(env, env.fr, id.Name)
		}
		if !bound && !isLocal {
			if pk := x.findPkgByName(env, id.Name); pk != nil {
				if v, ok := x.pkgMember(env, pk, s.Sel.Name); ok {
					return v
				}
				return env.fail("package %s has no usable member %s", id.Name, s.Sel.Name)
			}
		}
	}
	v := x.evalSpecLazy(env, s.X)
	return x.selectField(env, v, s.Sel.Name)
}

func (x *Exec) selectField(env *SpecEnv, v specVal, name string) specVal {
	st := env.st
	if env.inOld && env.old != nil {
		st = env.old
	}
	var pkg *types.Package
	if n, ok := deref(v.typ).(*types.Named); ok && n.Obj().Pkg() != nil {
		pkg = n.Obj().Pkg()
	} else {
		pkg = env.pkg
	}
	obj, path, _ := types.LookupFieldOrMethod(v.typ, true, pkg, name)
	fld, ok := obj.(*types.Var)
	if !ok || !fld.IsField() {
		return env.fail("no field %s in %s", name, v.typ)
	}
	cur := v
	implicitPtr := v.lazy
	for _, idx := range path {
		if pt, ok := cur.typ.Underlying().(*types.Pointer); ok {
			stt := pt.Elem()
			ft := stt.Underlying().(*types.Struct).Field(idx).Type()
			if _, isStruct := ft.Underlying().(*types.Struct); isStruct {
				// stay at the address of the nested struct; load lazily
				cur = specVal{term: fmt.Sprintf("(pfld %s %d)", cur.term, x.vc.fieldID(stt, idx)), typ: types.NewPointer(ft)}
				implicitPtr = true
				continue
			}
			cur = specVal{term: x.loadField(st, stt, idx, cur.term), typ: ft}
			x.specLoaded(env, st, ft, cur.term)
			implicitPtr = false
		} else {
			ft := cur.typ.Underlying().(*types.Struct).Field(idx).Type()
			cur = specVal{term: x.vc.fieldOf(cur.typ, idx, cur.term), typ: ft}
			implicitPtr = false
		}
	}
	cur.lazy = implicitPtr
	return cur
}

// force loads a lazily addressed nested struct value.
func (x *Exec) force(env *SpecEnv, v specVal) specVal {
	if !v.lazy {
		return v
	}
	st := env.st
	if env.inOld && env.old != nil {
		st = env.old
	}
	et := deref(v.typ)
	return specVal{term: x.loadStruct(st, et, v.term), typ: et}
}

func (x *Exec) coerceNil(a, b specVal) (specVal, specVal) {
	if a.typ == untypedNil && b.typ != untypedNil {
		a = specVal{term: x.vc.zero(b.typ), typ: b.typ}
	}
	if b.typ == untypedNil && a.typ != untypedNil {
		b = specVal{term: x.vc.zero(a.typ), typ: a.typ}
	}
	return a, b
}

func (x *Exec) evalBinary(env *SpecEnv, b *ast.BinaryExpr) specVal {
	switch b.Op {
	case token.LAND:
		return specVal{term: and(x.evalBool(env, b.X), x.evalBool(env, b.Y)), typ: tBool}
	case token.LOR:
		return specVal{term: or(x.evalBool(env, b.X), x.evalBool(env, b.Y)), typ: tBool}
	}
	l := x.evalSpec(env, b.X)
	r := x.evalSpec(env, b.Y)
	l, r = x.coerceNil(l, r)
	srt := x.vc.sortOf(l.typ)
	switch b.Op {
	case token.EQL:
		return specVal{term: x.vc.structEq(l.typ, l.term, r.term), typ: tBool}
	case token.NEQ:
		return specVal{term: not(x.vc.structEq(l.typ, l.term, r.term)), typ: tBool}
	}
	if srt == "Int" {
		switch b.Op {
		case token.ADD:
			return specVal{term: fmt.Sprintf("(+ %s %s)", l.term, r.term), typ: l.typ}
		case token.SUB:
			return specVal{term: fmt.Sprintf("(- %s %s)", l.term, r.term), typ: l.typ}
		case token.MUL:
			return specVal{term: fmt.Sprintf("(* %s %s)", l.term, r.term), typ: l.typ}
		case token.QUO:
			return specVal{term: goDiv(l.term, r.term), typ: l.typ}
		case token.REM:
			return specVal{term: fmt.Sprintf("(- %s (* %s %s))", l.term, r.term, goDiv(l.term, r.term)), typ: l.typ}
		case token.LSS:
			return specVal{term: fmt.Sprintf("(< %s %s)", l.term, r.term), typ: tBool}
		case token.LEQ:
			return specVal{term: fmt.Sprintf("(<= %s %s)", l.term, r.term), typ: tBool}
		case token.GTR:
			return specVal{term: fmt.Sprintf("(> %s %s)", l.term, r.term), typ: tBool}
		case token.GEQ:
			return specVal{term: fmt.Sprintf("(>= %s %s)", l.term, r.term), typ: tBool}
		}
	}
	if srt == "Str" {
		switch b.Op {
		case token.ADD:
			return specVal{term: fmt.Sprintf("(str_cat %s %s)", l.term, r.term), typ: l.typ}
		case token.LSS:
			return specVal{term: fmt.Sprintf("(str_lt %s %s)", l.term, r.term), typ: tBool}
		case token.GTR:
			return specVal{term: fmt.Sprintf("(str_lt %s %s)", r.term, l.term), typ: tBool}
		case token.LEQ:
			return specVal{term: fmt.Sprintf("(not (str_lt %s %s))", r.term, l.term), typ: tBool}
		case token.GEQ:
			return specVal{term: fmt.Sprintf("(not (str_lt %s %s))", l.term, r.term), typ: tBool}
		}
	}
	return env.fail("unsupported binary %s on %s", b.Op, l.typ)
}

// specLoaded records the allocation-order fact for a pointer the specification reads out of
// memory: a pointer stored in the heap of a state cannot refer to an object allocated after that
// state (ids -(n+1), -(n+2), ... are handed out in allocation order; the entry state has n = 0).
// The fact is valid in every real execution, so it may be assumed wherever the term occurs: inside
// a quantifier it guards the body, outside it is assumed on the current path.
func (x *Exec) specLoaded(env *SpecEnv, st *State, t types.Type, term string) {
	if _, ok := t.Underlying().(*types.Pointer); !ok {
		return
	}
	n := x.objCtr
	if env.inOld && env.old != nil && st == env.old {
		n = env.old.objN
	}
	f := fmt.Sprintf("(or (not ((_ is pobj) %s)) (>= (pobj_id %s) (- %d)))", term, term, n)
	if env.facts != nil {
		*env.facts = append(*env.facts, f)
	} else if env.st != nil {
		x.assume(env.st, f)
	}
}

func (x *Exec) evalIndex(env *SpecEnv, ie *ast.IndexExpr) specVal {
	st := env.st
	if env.inOld && env.old != nil {
		st = env.old
	}
	v := x.evalSpec(env, ie.X)
	i := x.evalSpec(env, ie.Index)
	switch u := v.typ.Underlying().(type) {
	case *types.Slice:
		p := fmt.Sprintf("(pelem (sl_arr %s) (+ (sl_off %s) %s))", v.term, v.term, i.term)
		return specVal{term: x.load(st, u.Elem(), p), typ: u.Elem()}
	case *types.Map:
		_, _, hm := x.mapHas(st, v.typ)
		_, _, vm := x.mapVal(st, v.typ)
		// a nil map has no entries
		has := fmt.Sprintf("(and (not (= %s 0)) (select (select %s %s) %s))", v.term, hm, v.term, i.term)
		mv := fmt.Sprintf("(select (select %s %s) %s)", vm, v.term, i.term)
		x.specLoaded(env, st, u.Elem(), mv)
		return specVal{term: ite(has, mv, x.vc.zero(u.Elem())), typ: u.Elem()}
	case *types.Basic:
		return specVal{term: fmt.Sprintf("(str_at %s %s)", v.term, i.term), typ: types.Typ[types.Byte]}
	case *types.Array:
		return specVal{term: fmt.Sprintf("(select %s %s)", v.term, i.term), typ: u.Elem()}
	}
	return env.fail("cannot index %s", v.typ)
}

func (x *Exec) evalCall(env *SpecEnv, c *ast.CallExpr) specVal {
	vc := x.vc
	if id, ok := c.Fun.(*ast.Ident); ok {
		switch id.Name {
		case "len", "cap":
			v := x.evalSpec(env, c.Args[0])
			switch vc.sortOf(v.typ) {
			case "Slice":
				return specVal{term: fmt.Sprintf("(sl_%s %s)", id.Name, v.term), typ: tInt}
			case "Str":
				return specVal{term: fmt.Sprintf("(strlen %s)", v.term), typ: tInt}
			}
			if _, ok := v.typ.Underlying().(*types.Map); ok {
				st := env.st
				if env.inOld && env.old != nil {
					st = env.old
				}
				_, _, lm := x.mapLen(st, v.typ)
				return specVal{term: fmt.Sprintf("(select %s %s)", lm, v.term), typ: tInt}
			}
			return env.fail("len of %s", v.typ)
		case "old":
			sub := *env
			sub.inOld = true
			if env.old != nil {
				sub.st = env.old
			}
			return x.evalSpec(&sub, c.Args[0])
		case "pre":
			// pre(e): e with the heap as it was at function entry but the CURRENT values of local
			// variables (old(e) evaluates locals at entry as well)
			sub := *env
			sub.inOld = true
			sub.localsCurrent = true
			return x.evalSpec(&sub, c.Args[0])
		case "G_pow2":
			x.needPow2()
			k := x.evalSpec(env, c.Args[0])
			return specVal{term: fmt.Sprintf("(pow2 %s)", k.term), typ: tInt}
		case "G_impl":
			return specVal{term: implies(x.evalBool(env, c.Args[0]), x.evalBool(env, c.Args[1])), typ: tBool}
		case "G_iff":
			return specVal{term: eq(x.evalBool(env, c.Args[0]), x.evalBool(env, c.Args[1])), typ: tBool}
		case "forall", "exists":
			// forall(i, lo, hi, body)  — i ranges over lo <= i < hi ; or forall(i T, body) via forallT(i, T, body)
			if len(c.Args) == 4 {
				iv, ok := c.Args[0].(*ast.Ident)
				if !ok {
					return env.fail("bad quantifier variable")
				}
				lo := x.evalSpec(env, c.Args[1])
				hi := x.evalSpec(env, c.Args[2])
				sub := env.sub()
				q := vc.fresh("q_" + iv.Name)
				sub.names[iv.Name] = specVal{term: q, typ: tInt}
				var facts []string
				sub.facts = &facts
				body := x.evalBool(sub, c.Args[3])
				rng := fmt.Sprintf("(and (<= %s %s) (< %s %s))", lo.term, q, q, hi.term)
				if len(facts) > 0 {
					rng = fmt.Sprintf("(and %s %s)", rng, strings.Join(facts, " "))
				}
				if id.Name == "forall" {
					return specVal{term: fmt.Sprintf("(forall ((%s Int)) (=> %s %s))", q, rng, body), typ: tBool}
				}
				return specVal{term: fmt.Sprintf("(exists ((%s Int)) (and %s %s))", q, rng, body), typ: tBool}
			}
			if len(c.Args) == 3 {
				iv, ok := c.Args[0].(*ast.Ident)
				if !ok {
					return env.fail("bad quantifier variable")
				}
				ty := x.resolveTypeExpr(c.Args[1], env.pkg)
				if ty == nil {
					return env.fail("bad quantifier type %s", exprString(c.Args[1]))
				}
				sub := env.sub()
				q := vc.fresh("q_" + iv.Name)
				sub.names[iv.Name] = specVal{term: q, typ: ty}
				var facts []string
				sub.facts = &facts
				body := x.evalBool(sub, c.Args[2])
				kw := "forall"
				if id.Name == "exists" {
					kw = "exists"
					if len(facts) > 0 {
						body = fmt.Sprintf("(and %s %s)", strings.Join(facts, " "), body)
					}
				} else if len(facts) > 0 {
					body = fmt.Sprintf("(=> (and %s) %s)", strings.Join(facts, " "), body)
				}
				if kw == "forall" && strings.HasPrefix(body, "(forall ((") {
					// forall x. forall y. B  ==  forall x y. B (one quantifier: a trigger given for the
					// inner one can then mention both variables)
					return specVal{term: fmt.Sprintf("(forall ((%s %s) %s", q, vc.sortOf(ty), body[len("(forall ("):]), typ: tBool}
				}
				return specVal{term: fmt.Sprintf("(%s ((%s %s)) %s)", kw, q, vc.sortOf(ty), body), typ: tBool}
			}
			return env.fail("quantifier needs (i, lo, hi, body) or (x, T, body)")
		case "min", "max":
			a := x.evalSpec(env, c.Args[0])
			b := x.evalSpec(env, c.Args[1])
			return specVal{term: fmt.Sprintf("(i%s %s %s)", id.Name, a.term, b.term), typ: a.typ}
		case "ite":
			cnd := x.evalBool(env, c.Args[0])
			a := x.evalSpec(env, c.Args[1])
			b := x.evalSpec(env, c.Args[2])
			a, b = x.coerceNil(a, b)
			return specVal{term: ite(cnd, a.term, b.term), typ: a.typ}
		case "G_has":
			m := x.evalSpec(env, c.Args[0])
			k := x.evalSpec(env, c.Args[1])
			st := env.st
			if env.inOld && env.old != nil {
				st = env.old
			}
			_, _, hm := x.mapHas(st, m.typ)
			return specVal{term: fmt.Sprintf("(and (not (= %s 0)) (select (select %s %s) %s))", m.term, hm, m.term, k.term), typ: tBool}
		case "G_sameslice":
			a := x.evalSpec(env, c.Args[0])
			b := x.evalSpec(env, c.Args[1])
			return specVal{term: eq(a.term, b.term), typ: tBool}
		case "G_str":
			// $str(b): the content of a byte slice as an abstract string
			b := x.evalSpec(env, c.Args[0])
			st := env.st
			if env.inOld && env.old != nil {
				st = env.old
			}
			return specVal{term: x.strOfBytes(st, b.term), typ: tString}
		case "G_held":
			// $held(Type.field): the mutex field of the type is held (ghost, set by Lock/Unlock)
			sel, ok := c.Args[0].(*ast.SelectorExpr)
			if !ok {
				return env.fail("$held needs Type.field")
			}
			ty := x.tryResolveType(sel.X, env)
			if ty == nil {
				return env.fail("$held: unknown type %s", exprString(sel.X))
			}
			st := env.st
			if env.inOld && env.old != nil {
				st = env.old
			}
			return specVal{term: x.ghostGet(st, "held|"+typeKey(ty)+"."+sel.Sel.Name), typ: tBool}
		case "G_arr":
			// $arr(s): identity of the backing array of a slice
			v := x.evalSpec(env, c.Args[0])
			return specVal{term: fmt.Sprintf("(sl_arr %s)", v.term), typ: tInt}
		case "G_isnil":
			v := x.evalSpec(env, c.Args[0])
			return specVal{term: eq(v.term, vc.zero(v.typ)), typ: tBool}
		case "G_dyntype":
			// $dyntype(v, T): interface value v holds dynamic type T
			v := x.evalSpec(env, c.Args[0])
			ty := x.resolveTypeExpr(c.Args[1], env.pkg)
			if ty == nil {
				return env.fail("bad type %s", exprString(c.Args[1]))
			}
			return specVal{term: fmt.Sprintf("(and ((_ is ibox) %s) (= (itag %s) %d))", v.term, v.term, vc.typeTag(ty)), typ: tBool}
		case "G_errIs":
			// $errIs(err, target): errors.Is as the model knows it (reflexive; preserved by %w wrapping)
			if len(c.Args) != 2 {
				return env.fail("$errIs needs (err, target)")
			}
			a := x.evalSpec(env, c.Args[0])
			b := x.evalSpec(env, c.Args[1])
			return specVal{term: fmt.Sprintf("(errors_is %s %s)", a.term, b.term), typ: tBool}
		case "G_trigger":
			// $trigger(body, t1, t2, ...): body, to be instantiated only where all of t1, t2, ... occur
			// (an SMT multi-pattern for the enclosing forall)
			if len(c.Args) < 2 {
				return env.fail("$trigger needs (body, term, ...)")
			}
			body := x.evalBool(env, c.Args[0])
			var pats []string
			for _, a := range c.Args[1:] {
				pats = append(pats, x.evalSpec(env, a).term)
			}
			return specVal{term: fmt.Sprintf("(! %s :pattern (%s))", body, strings.Join(pats, " ")), typ: tBool}
		case "G_ite":
			// $ite(c, a, b): a if c else b
			if len(c.Args) != 3 {
				return env.fail("$ite needs (condition, then, else)")
			}
			cnd := x.evalBool(env, c.Args[0])
			a := x.evalSpec(env, c.Args[1])
			b := x.evalSpec(env, c.Args[2])
			return specVal{term: fmt.Sprintf("(ite %s %s %s)", cnd, a.term, b.term), typ: a.typ}
		case "G_upd":
			// $upd(a, i, v): the array a with element i replaced by v (ghost arrays)
			if len(c.Args) != 3 {
				return env.fail("$upd needs (array, index, value)")
			}
			a := x.evalSpec(env, c.Args[0])
			i := x.evalSpec(env, c.Args[1])
			v := x.evalSpec(env, c.Args[2])
			if _, ok := a.typ.Underlying().(*types.Array); !ok {
				return env.fail("$upd: %s is not an array", exprString(c.Args[0]))
			}
			return specVal{term: fmt.Sprintf("(store %s %s %s)", a.term, i.term, v.term), typ: a.typ}
		case "G_ret":
			// $ret(Name, i): the i-th result of the call to the function or method called Name in
			// the function under verification (Name__2: the second such call in block order). Only
			// meaningful on paths that executed the call: guard it with the branch condition.
			nm, ok := c.Args[0].(*ast.Ident)
			rfr := env.fr
			if rfr == nil {
				rfr = env.callerFrame // call-site / access contracts: calls of the function containing the site
			}
			if !ok || rfr == nil || len(c.Args) != 2 {
				return env.fail("$ret needs (Name, i) inside a function")
			}
			iv := x.evalSpec(env, c.Args[1])
			idx, err := strconv.Atoi(iv.term)
			if err != nil {
				return env.fail("$ret: constant index needed")
			}
			want, base := 1, nm.Name
			if i := strings.LastIndex(base, "__"); i > 0 {
				if k, err := strconv.Atoi(base[i+2:]); err == nil {
					base, want = base[:i], k
				}
			}
			n := 0
			for _, b := range rfr.fn.Blocks {
				for _, ins := range b.Instrs {
					call, ok := ins.(*ssa.Call)
					if !ok {
						continue
					}
					cn := ""
					if call.Call.IsInvoke() {
						cn = call.Call.Method.Name()
					} else if f := call.Call.StaticCallee(); f != nil {
						cn = f.Name()
					}
					if cn != base {
						continue
					}
					n++
					if n != want {
						continue
					}
					if tup, ok := call.Type().(*types.Tuple); ok {
						ts, done := rfr.tuples[call]
						if idx >= tup.Len() {
							return env.fail("$ret(%s, %d): the call has %d results", nm.Name, idx, tup.Len())
						}
						if !done || idx >= len(ts) {
							// the call exists but lies after this point on every path: unconstrained
							return specVal{term: x.vc.freshConst("ret_later", x.vc.sortOf(tup.At(idx).Type())), typ: tup.At(idx).Type()}
						}
						return specVal{term: ts[idx], typ: tup.At(idx).Type()}
					}
					if idx != 0 {
						return env.fail("$ret(%s, %d): the call has one result", nm.Name, idx)
					}
					v, done := rfr.vals[call]
					if !done {
						return specVal{term: x.vc.freshConst("ret_later", x.vc.sortOf(call.Type())), typ: call.Type()}
					}
					return specVal{term: v, typ: call.Type()}
				}
			}
			return env.fail("$ret: no call of %s in %s", nm.Name, rfr.fn.Name())
		case "G_unbox":
			v := x.evalSpec(env, c.Args[0])
			ty := x.resolveTypeExpr(c.Args[1], env.pkg)
			if ty == nil {
				return env.fail("bad type %s", exprString(c.Args[1]))
			}
			return specVal{term: x.unboxIface(ty, v.term), typ: ty}
		}
		if strings.HasPrefix(id.Name, "G_") {
			if u, ok := x.db.UFuns[id.Name[2:]]; ok {
				return x.applyUFun(env, u, c.Args)
			}
			return env.fail("unknown ghost function %s", id.Name)
		}
	}
	// call of a closure value bound by a let (e.g. the comparator returned by a function)
	if id, ok := c.Fun.(*ast.Ident); ok {
		if v, bound := env.names[id.Name]; bound && x.vc.sortOf(v.typ) == "Fn" {
			ci, known := x.closures[v.term]
			if !known {
				return env.fail("call of unknown function value %s", id.Name)
			}
			var terms []string
			for i, a := range c.Args {
				av := x.evalSpec(env, a)
				if i < len(ci.fn.Params) && av.typ == untypedNil {
					av = specVal{term: x.vc.zero(ci.fn.Params[i].Type()), typ: ci.fn.Params[i].Type()}
				}
				terms = append(terms, av.term)
			}
			fr := &Frame{fn: x.top, vals: map[ssa.Value]string{}, laddr: map[ssa.Value]*LAddr{}, tuples: map[ssa.Value][]string{}, depth: 0}
			if env.fr != nil {
				fr = env.fr
			}
			res := x.inlineCall(fr, env.st, ci.fn, terms, ci.bindings)
			rts := x.resultTypes(ci.fn.Signature)
			if len(rts) == 0 {
				return specVal{term: "true", typ: tBool}
			}
			return specVal{term: res[0], typ: rts[0]}
		}
	}
	// conversion?
	if ty := x.tryResolveType(c.Fun, env); ty != nil && len(c.Args) == 1 {
		v := x.evalSpec(env, c.Args[0])
		from, to := vc.sortOf(v.typ), vc.sortOf(ty)
		if v.typ == untypedNil {
			return specVal{term: vc.zero(ty), typ: ty}
		}
		if from == to {
			return specVal{term: v.term, typ: ty}
		}
		if from == "Slice" && to == "Str" {
			st := env.st
			if env.inOld && env.old != nil {
				st = env.old
			}
			return specVal{term: x.strOfBytes(st, v.term), typ: ty}
		}
		if to == "Iface" {
			// any(x): box the value like a MakeInterface instruction does
			return specVal{term: x.makeIface(env.st, v.typ, v.term), typ: ty}
		}
		return env.fail("unsupported conversion %s -> %s", v.typ, ty)
	}
	// call of real code: method or function
	return x.evalRealCall(env, c)
}

func (x *Exec) applyUFun(env *SpecEnv, u *UFun, args []ast.Expr) specVal {
	var sorts, terms []string
	pk := env.pkg
	if u.Pkg != "" {
		if p, ok := x.p.AllPkgs[u.Pkg]; ok {
			pk = p.Types
		}
	}
	for i, pe := range u.Params {
		pt := x.resolveTypeExpr(pe, pk)
		if pt == nil {
			return env.fail("ufun %s: bad parameter type %s", u.Name, exprString(pe))
		}
		sorts = append(sorts, x.vc.sortOf(pt))
		if i < len(args) {
			a := x.evalSpec(env, args[i])
			if a.typ == untypedNil {
				a = specVal{term: x.vc.zero(pt), typ: pt}
			}
			terms = append(terms, a.term)
		}
	}
	rt := x.resolveTypeExpr(u.Result, pk)
	if rt == nil {
		return env.fail("ufun %s: bad result type", u.Name)
	}
	f := x.vc.ufun("uf_"+sanitize(u.Name), sorts, x.vc.sortOf(rt))
	if len(terms) == 0 {
		return specVal{term: f, typ: rt}
	}
	return specVal{term: fmt.Sprintf("(%s %s)", f, strings.Join(terms, " ")), typ: rt}
}

// evalRealCall executes a call to a function of the program inside a spec expression (used by
// lemmas and by contracts that refer to pure helpers). The callee is handled exactly like a call
// in code: by contract if it has one, otherwise inlined.
func (x *Exec) evalRealCall(env *SpecEnv, c *ast.CallExpr) specVal {
	var fn *ssa.Function
	var args []specVal
	switch f := c.Fun.(type) {
	case *ast.SelectorExpr:
		// pkg.Func or recv.Method
		if id, ok := f.X.(*ast.Ident); ok {
			_, bound := env.names[id.Name]
			isLocal := false
			if env.fr != nil && !bound {
				_, isLocal = x.localByName(env, env.fr, id.Name)
			}
			if !bound && !isLocal {
				if pk := x.findPkgByName(env, id.Name); pk != nil {
					if sp := x.p.SSA.Package(pk); sp != nil {
						if m, ok := sp.Members[f.Sel.Name].(*ssa.Function); ok {
							fn = m
						}
					}
					if fn == nil {
						return env.fail("no function %s.%s", id.Name, f.Sel.Name)
					}
				}
			}
		}
		if fn == nil {
			recv := x.evalSpec(env, f.X)
			var pkg *types.Package
			if n, ok := deref(recv.typ).(*types.Named); ok && n.Obj().Pkg() != nil {
				pkg = n.Obj().Pkg()
			}
			obj, path, indirect := types.LookupFieldOrMethod(recv.typ, true, pkg, f.Sel.Name)
			m, ok := obj.(*types.Func)
			if !ok {
				return env.fail("no method %s on %s", f.Sel.Name, recv.typ)
			}
			// walk embedded path
			for _, idx := range path[:len(path)-1] {
				if pt, ok := recv.typ.Underlying().(*types.Pointer); ok {
					stt := pt.Elem()
					ft := stt.Underlying().(*types.Struct).Field(idx).Type()
					if _, isPtr := ft.Underlying().(*types.Pointer); isPtr {
						recv = specVal{term: x.loadField(env.st, stt, idx, recv.term), typ: ft}
					} else {
						recv = specVal{term: fmt.Sprintf("(pfld %s %d)", recv.term, x.vc.fieldID(stt, idx)), typ: types.NewPointer(ft)}
					}
				} else {
					ft := recv.typ.Underlying().(*types.Struct).Field(idx).Type()
					recv = specVal{term: x.vc.fieldOf(recv.typ, idx, recv.term), typ: ft}
				}
			}
			_ = indirect
			fn = x.p.SSA.FuncValue(m)
			if fn == nil {
				return env.fail("no SSA for method %s", m.FullName())
			}
			// adjust receiver: method wants pointer but we have value or vice versa
			sigRecv := m.Type().(*types.Signature).Recv().Type()
			_, wantPtr := sigRecv.Underlying().(*types.Pointer)
			_, havePtr := recv.typ.Underlying().(*types.Pointer)
			if wantPtr && !havePtr {
				// materialise the value in a fresh object
				p := x.newObj()
				x.store(env.st, recv.typ, p, recv.term)
				recv = specVal{term: p, typ: types.NewPointer(recv.typ)}
			} else if !wantPtr && havePtr {
				et := deref(recv.typ)
				recv = specVal{term: x.load(env.st, et, recv.term), typ: et}
			}
			args = append(args, recv)
		}
	case *ast.Ident:
		if env.pkg != nil {
			if sp := x.p.SSA.Package(env.pkg); sp != nil {
				if m, ok := sp.Members[f.Name].(*ssa.Function); ok {
					fn = m
				}
			}
		}
		if fn == nil {
			return env.fail("unknown function %s", f.Name)
		}
	default:
		return env.fail("unsupported call %s", exprString(c))
	}
	for i, a := range c.Args {
		v := x.evalSpec(env, a)
		pi := len(args)
		if pi < len(fn.Params) {
			pt := fn.Params[pi].Type()
			if v.typ == untypedNil {
				v = specVal{term: x.vc.zero(pt), typ: pt}
			} else if _, isIface := pt.Underlying().(*types.Interface); isIface {
				if _, already := v.typ.Underlying().(*types.Interface); !already {
					v = specVal{term: x.makeIface(env.st, v.typ, v.term), typ: pt}
				}
			}
		}
		_ = i
		args = append(args, v)
	}
	var terms []string
	for _, a := range args {
		terms = append(terms, a.term)
	}
	fr := &Frame{fn: x.top, vals: map[ssa.Value]string{}, laddr: map[ssa.Value]*LAddr{}, tuples: map[ssa.Value][]string{}, depth: 0}
	if env.fr != nil {
		fr = env.fr
	}
	var res []string
	key := fn.String()
	forceInline := x.lemmaInline[fn.Name()] || (x.topC != nil && (x.topC.Inline[fn.Name()] || x.topC.Inline[shortFn(fn)]))
	if fc, ok := x.db.Funcs[key]; ok && (x.mode != "lemma" || fc.Extern || fc.Trusted != "") && !forceInline {
		var ats []types.Type
		for _, a := range args {
			ats = append(ats, a.typ)
		}
		res = x.callByContractSpec(fr, env.st, fc, fn, terms, ats)
	} else {
		res = x.inlineCall(fr, env.st, fn, terms, nil)
	}
	rts := x.resultTypes(fn.Signature)
	if len(rts) == 0 {
		return specVal{term: "true", typ: tBool}
	}
	if len(rts) > 1 {
		// tuple: expose as first result, others through names result1..n
		for i := range rts {
			env.names[fmt.Sprintf("%s_%d", fn.Name(), i)] = specVal{term: res[i], typ: rts[i]}
		}
	}
	return specVal{term: res[0], typ: rts[0]}
}

// callByContractSpec: contract application for a call made from a spec expression.
func (x *Exec) callByContractSpec(fr *Frame, st *State, fc *FuncContract, fn *ssa.Function, args []string, argTypes []types.Type) []string {
	env := &SpecEnv{x: x, names: map[string]specVal{}, st: st}
	env.pkg = x.pkgOfContract(fc.Pkg, fn)
	for i, p := range fn.Params {
		if i < len(args) {
			env.names[p.Name()] = specVal{term: args[i], typ: argTypes[i]}
		}
	}
	// header names (functions without body have no parameter names) and "recv"
	hn := fc.Params
	if len(hn)+1 == len(args) {
		hn = append([]string{"recv"}, hn...)
	}
	if len(hn) == len(args) {
		for i, n := range hn {
			if n != "" && n != "_" {
				env.names[n] = specVal{term: args[i], typ: argTypes[i]}
			}
		}
	}
	if len(args) > 0 {
		env.names["recv"] = specVal{term: args[0], typ: argTypes[0]}
	}
	pre := st.clone()
	pre.objN = x.objCtr
	env.old = pre
	for _, l := range fc.Lets {
		env.names[l.Name] = x.evalSpec(env, l.Expr)
	}
	rts := x.resultTypes(fn.Signature)
	res := make([]string, len(rts))
	for i, rt := range rts {
		res[i] = x.freshOfType(st, "res_"+fn.Name(), rt)
		name := fmt.Sprintf("result%d", i)
		if i < len(fc.Results) {
			name = fc.Results[i]
		}
		env.names[name] = specVal{term: res[i], typ: rt}
		if len(rts) == 1 {
			env.names["result"] = specVal{term: res[i], typ: rt}
		}
	}
	for _, e := range fc.Ensures {
		x.assume(st, x.evalBool(env, e.Expr))
	}
	return res
}

// ---------- type expressions ----------

func (x *Exec) tryResolveType(e ast.Expr, env *SpecEnv) types.Type {
	switch t := e.(type) {
	case *ast.Ident:
		if _, ok := env.names[t.Name]; ok {
			return nil
		}
		if obj := types.Universe.Lookup(t.Name); obj != nil {
			if tn, ok := obj.(*types.TypeName); ok {
				return tn.Type()
			}
			return nil
		}
		if env.pkg != nil {
			if tn, ok := env.pkg.Scope().Lookup(t.Name).(*types.TypeName); ok {
				return tn.Type()
			}
		}
	case *ast.SelectorExpr:
		if id, ok := t.X.(*ast.Ident); ok {
			if _, bound := env.names[id.Name]; bound {
				return nil
			}
			if pk := x.findPkgByName(env, id.Name); pk != nil {
				if tn, ok := pk.Scope().Lookup(t.Sel.Name).(*types.TypeName); ok {
					return tn.Type()
				}
			}
		}
	case *ast.ArrayType, *ast.StarExpr, *ast.MapType:
		return x.resolveTypeExpr(e, env.pkg)
	case *ast.ParenExpr:
		return x.tryResolveType(t.X, env)
	}
	return nil
}

func (x *Exec) resolveTypeExpr(e ast.Expr, pkg *types.Package) types.Type {
	env := &SpecEnv{x: x, names: map[string]specVal{}, pkg: pkg}
	switch t := e.(type) {
	case *ast.Ident, *ast.SelectorExpr:
		return x.tryResolveType(e, env)
	case *ast.StarExpr:
		if et := x.resolveTypeExpr(t.X, pkg); et != nil {
			return types.NewPointer(et)
		}
	case *ast.ArrayType:
		if et := x.resolveTypeExpr(t.Elt, pkg); et != nil {
			if t.Len == nil {
				return types.NewSlice(et)
			}
			// [N]T: modelled as a total SMT array, the length is not used
			return types.NewArray(et, 1)
		}
	case *ast.MapType:
		k := x.resolveTypeExpr(t.Key, pkg)
		v := x.resolveTypeExpr(t.Value, pkg)
		if k != nil && v != nil {
			return types.NewMap(k, v)
		}
	case *ast.ParenExpr:
		return x.resolveTypeExpr(t.X, pkg)
	case *ast.InterfaceType:
		return types.NewInterfaceType(nil, nil)
	}
	return nil
}

var sameNamedCache = map[*ssa.Function]map[string][]*ssa.Alloc{}
var sameNamedMu sync.Mutex

func sameNamedLocals(fn *ssa.Function, base string) []*ssa.Alloc {
	sameNamedMu.Lock()
	defer sameNamedMu.Unlock()
	if m, ok := sameNamedCache[fn]; ok {
		if l, ok := m[base]; ok {
			return l
		}
	} else {
		sameNamedCache[fn] = map[string][]*ssa.Alloc{}
	}
	type cand struct {
		a   *ssa.Alloc
		pos token.Pos
		ord int
	}
	var cs []cand
	ord := 0
	for _, b := range fn.Blocks {
		for _, ins := range b.Instrs {
			if a, ok := ins.(*ssa.Alloc); ok && a.Comment == base {
				p := a.Pos()
				if !p.IsValid() {
					if refs := a.Referrers(); refs != nil {
						for _, r := range *refs {
							if rp := r.Pos(); rp.IsValid() && (!p.IsValid() || rp < p) {
								p = rp
							}
							// the value loaded from / stored to the cell may be the only positioned use
							if v, ok := r.(ssa.Value); ok {
								if vr := v.Referrers(); vr != nil {
									for _, r2 := range *vr {
										if rp := r2.Pos(); rp.IsValid() && (!p.IsValid() || rp < p) {
											p = rp
										}
									}
								}
							}
						}
					}
				}
				cs = append(cs, cand{a, p, ord})
				ord++
			}
		}
	}
	allPos := true
	for _, c := range cs {
		if !c.pos.IsValid() {
			allPos = false
		}
	}
	if allPos {
		sort.SliceStable(cs, func(i, j int) bool { return cs[i].pos < cs[j].pos })
	}
	var out []*ssa.Alloc
	for _, c := range cs {
		out = append(out, c.a)
	}
	sameNamedCache[fn][base] = out
	return out
}

// ---- renamed locals ----
// `govc baseline` records, per function that was a unit of the check, the names and types of its
// local variables (specs/baseline/<prop>.locals.json). At check time a contract name that no
// longer resolves is matched against that record.

type localRec struct {
	Name string
	Type string
}

var baselineLocals map[string][]localRec

func localsOf(fn *ssa.Function) []localRec {
	type cand struct {
		r   localRec
		pos token.Pos
		ord int
	}
	var cs []cand
	seen := map[string]bool{}
	ord := 0
	for _, b := range fn.Blocks {
		for _, ins := range b.Instrs {
			if a, ok := ins.(*ssa.Alloc); ok && a.Comment != "" && a.Pos().IsValid() && !seen[a.Comment] {
				seen[a.Comment] = true
				cs = append(cs, cand{localRec{a.Comment, a.Type().String()}, a.Pos(), ord})
				ord++
			}
		}
	}
	sort.SliceStable(cs, func(i, j int) bool { return cs[i].pos < cs[j].pos })
	var out []localRec
	for _, c := range cs {
		out = append(out, c.r)
	}
	return out
}

func renamedLocal(fn *ssa.Function, name string) string {
	rec, ok := baselineLocals[fn.String()]
	if !ok {
		return ""
	}
	cur := localsOf(fn)
	curNames := map[string]bool{}
	for _, c := range cur {
		curNames[c.Name] = true
	}
	recNames := map[string]bool{}
	typ := ""
	for _, r := range rec {
		recNames[r.Name] = true
		if r.Name == name {
			typ = r.Type
		}
	}
	if typ == "" {
		return ""
	}
	var missing, added []string
	for _, r := range rec {
		if r.Type == typ && !curNames[r.Name] {
			missing = append(missing, r.Name)
		}
	}
	for _, c := range cur {
		if c.Type == typ && !recNames[c.Name] {
			added = append(added, c.Name)
		}
	}
	if len(missing) == 0 || len(missing) != len(added) {
		return ""
	}
	for i, m := range missing {
		if m == name {
			return added[i]
		}
	}
	return ""
}
